from .core import *  # noqa
from .core import Ctx, explore, split_roots, PathAbort, HarnessError, Stats  # noqa
