"""symx: forking symbolic executor for real Python function objects.

The harness function is re-executed from the start for every path.  Values are
z3-backed proxies; a branch on a proxy (`__bool__`) asks the solver which sides
are feasible under the path condition, takes one and queues the other as a
decision prefix.  Only decisions where BOTH sides are feasible consume the
prefix.  `unknown` is never read as `unsat`: it raises HarnessError.

Control exceptions derive from BaseException because the code under test has
`except Exception` handlers.
"""
import builtins
import time
import z3


class PathAbort(BaseException):
    """This path is outside the claim (cut / precondition); drop it."""


class HarnessError(BaseException):
    """The engine could not decide (unknown, bound exhausted, unsupported)."""


class Stats:
    def __init__(self):
        self.paths = 0
        self.aborted = 0
        self.decisions = 0
        self.queries = 0
        self.solver_s = 0.0
        self.max_depth = 0
        self.obligations = 0

    def add(self, o):
        self.paths += o.paths
        self.aborted += o.aborted
        self.decisions += o.decisions
        self.queries += o.queries
        self.solver_s += o.solver_s
        self.max_depth = max(self.max_depth, o.max_depth)
        self.obligations += o.obligations

    def as_dict(self):
        return dict(paths=self.paths, aborted=self.aborted,
                    decisions=self.decisions, queries=self.queries,
                    solver_s=round(self.solver_s, 3), max_depth=self.max_depth,
                    obligations=self.obligations)


class Ctx:
    cur = None
    TIMEOUT_MS = 120000

    def __init__(self, prefix, pending, stats, max_depth=400):
        self.prefix = list(prefix)
        self.pending = pending
        self.stats = stats
        self.depth = 0
        self.trace = []
        self.solver = z3.Solver()
        self.solver.set('timeout', self.TIMEOUT_MS)
        self.model = None          # last model known to satisfy the path condition
        self.max_depth = max_depth
        self.nfresh = 0
        self.notes = []            # free-form per-path log (operation log etc.)

    # -- solver access -----------------------------------------------------
    def _check(self, *extra):
        self.stats.queries += 1
        t0 = time.time()
        if extra:
            self.solver.push()
            self.solver.add(*extra)
        r = self.solver.check()
        m = None
        if str(r) == 'sat':
            m = self.solver.model()
        reason = self.solver.reason_unknown() if str(r) == 'unknown' else ''
        if extra:
            self.solver.pop()
        self.stats.solver_s += time.time() - t0
        if str(r) == 'unknown':
            raise HarnessError('solver answered unknown: %s' % reason)
        return str(r), m

    def sat(self, *extra):
        """Is path condition ∧ extra satisfiable?  -> 'sat' / 'unsat'."""
        r, m = self._check(*extra)
        return r

    def sat_model(self, *extra):
        return self._check(*extra)

    def assume(self, cond):
        """Add a precondition (before the code it constrains)."""
        if isinstance(cond, SBool):
            cond = cond.t
        self.solver.add(cond)
        self.model = None

    def fresh_bool(self, name):
        self.nfresh += 1
        return z3.Bool('%s#%d' % (name, self.nfresh))

    def fresh_int(self, name):
        self.nfresh += 1
        return z3.Int('%s#%d' % (name, self.nfresh))

    def _holds_in_model(self, cond):
        if self.model is None:
            return None
        try:
            v = self.model.eval(cond, model_completion=True)
        except z3.Z3Exception:
            return None
        if z3.is_true(v):
            return True
        if z3.is_false(v):
            return False
        return None

    def decide(self, cond):
        """Fork on a z3 Bool term; returns the Python bool taken on this path."""
        if isinstance(cond, SBool):
            cond = cond.t
        if isinstance(cond, bool):
            return cond
        cond = z3.simplify(cond)
        if z3.is_true(cond):
            return True
        if z3.is_false(cond):
            return False
        known = self._holds_in_model(cond)
        if known is True:
            t = True
            r, m = self._check(z3.Not(cond))
            f = r == 'sat'
            mt, mf = self.model, m
        elif known is False:
            f = True
            r, m = self._check(cond)
            t = r == 'sat'
            mt, mf = m, self.model
        else:
            r, mt = self._check(cond)
            t = r == 'sat'
            if t:
                r, mf = self._check(z3.Not(cond))
                f = r == 'sat'
            else:
                f, mf = True, None
        if t and f:
            if self.depth < len(self.prefix):
                b = self.prefix[self.depth]
            else:
                b = True
                self.pending.append(list(self.trace) + [False])
            self.trace.append(b)
            self.depth += 1
            self.stats.decisions += 1
            if self.depth > self.max_depth:
                raise HarnessError('per-path decision depth bound %d exhausted'
                                   % self.max_depth)
        elif t:
            b = True
        elif f:
            b = False
        else:
            raise PathAbort()      # path condition itself unsatisfiable
        self.solver.add(cond if b else z3.Not(cond))
        self.model = mt if b else mf
        return b

    def choose(self, name, n):
        """Symbolic choice among range(n) (forks up to n ways)."""
        v = self.fresh_int(name)
        self.solver.add(v >= 0, v < n)
        for i in range(n - 1):
            if self.decide(v == i):
                return i
        return n - 1

    def concretize_int(self, term, lo, hi):
        """Fork over the feasible concrete values of an Int term in [lo, hi]."""
        term = z3.simplify(term)
        if z3.is_int_value(term):
            return term.as_long()
        for i in range(lo, hi):
            if self.decide(term == i):
                return i
        if self.decide(term == hi):
            return hi
        raise PathAbort()


def cur():
    return Ctx.cur


def explore(fn, max_paths=200000, max_depth=400, roots=None, deadline=None, yield_at=None):
    """Run fn(ctx) once per feasible path.  Returns ([(trace, result)], Stats).

    PathAbort drops a path (counted).  HarnessError propagates.
    `roots`: list of decision prefixes to start from (for work splitting).
    `yield_at`: wall-clock time after which the unexplored prefixes are handed
    back instead of being explored: returns (results, Stats, leftover prefixes).
    """
    pending = [list(r) for r in (roots if roots is not None else [[]])]
    stats = Stats()
    results = []
    while pending:
        if yield_at is not None and time.time() > yield_at and results:
            return results, stats, pending
        prefix = pending.pop()
        ctx = Ctx(prefix, pending, stats, max_depth=max_depth)
        Ctx.cur = ctx
        try:
            out = fn(ctx)
            results.append((list(ctx.trace), out))
            stats.paths += 1
        except PathAbort:
            stats.aborted += 1
        finally:
            Ctx.cur = None
        stats.max_depth = max(stats.max_depth, ctx.depth)
        if stats.paths + stats.aborted > max_paths:
            raise HarnessError('path budget %d exhausted' % max_paths)
        if deadline is not None and time.time() > deadline:
            raise HarnessError('time budget exhausted with %d prefixes pending'
                               % len(pending))
    if yield_at is not None:
        return results, stats, []
    return results, stats


def split_roots(fn, depth, max_depth=400):
    """Enumerate feasible decision prefixes of length <= depth (for pools).

    Runs fn with a context that aborts once `depth` two-sided decisions were
    taken; returns the list of prefixes (each is a complete path if shorter).
    """
    class _Cut(BaseException):
        pass
    pending = [[]]
    stats = Stats()
    roots = []
    while pending:
        prefix = pending.pop()
        ctx = Ctx(prefix, pending, stats, max_depth=max_depth)
        orig = ctx.decide

        def decide(cond, ctx=ctx, orig=orig):
            if ctx.depth >= depth:
                raise _Cut()
            return orig(cond)
        ctx.decide = decide
        Ctx.cur = ctx
        try:
            fn(ctx)
            roots.append(list(ctx.trace))
        except _Cut:
            roots.append(list(ctx.trace))
        except PathAbort:
            pass
        finally:
            Ctx.cur = None
    return roots


# ---------------------------------------------------------------------------
# proxies

class SBool:
    __slots__ = ('t',)

    def __init__(self, t):
        self.t = t if not isinstance(t, bool) else z3.BoolVal(t)

    def __bool__(self):
        return Ctx.cur.decide(self.t)

    def __invert__(self):
        return SBool(z3.Not(self.t))

    def __or__(self, o):
        return SBool(z3.Or(self.t, tob(o)))
    __ror__ = __or__

    def __and__(self, o):
        return SBool(z3.And(self.t, tob(o)))
    __rand__ = __and__

    def __eq__(self, o):
        return SBool(self.t == tob(o))

    def __ne__(self, o):
        return SBool(self.t != tob(o))
    __hash__ = None

    def __repr__(self):
        return 'SBool(%s)' % self.t


def tob(x):
    if isinstance(x, SBool):
        return x.t
    if isinstance(x, bool):
        return z3.BoolVal(x)
    if z3.is_expr(x):
        return x
    raise TypeError('not a bool proxy: %r' % (x,))


def toi(x):
    if isinstance(x, SInt):
        return x.t
    if isinstance(x, bool):
        return z3.IntVal(int(x))
    if isinstance(x, int):
        return z3.IntVal(x)
    if isinstance(x, SBool):
        return z3.If(x.t, 1, 0)
    raise TypeError('not an int proxy: %r' % (type(x),))


class SInt:
    __slots__ = ('t',)

    def __init__(self, t):
        self.t = t if not isinstance(t, int) else z3.IntVal(t)

    def __add__(self, o):
        return SInt(self.t + toi(o))
    __radd__ = __add__

    def __sub__(self, o):
        return SInt(self.t - toi(o))

    def __rsub__(self, o):
        return SInt(toi(o) - self.t)

    def __neg__(self):
        return SInt(-self.t)

    def __ge__(self, o):
        return SBool(self.t >= toi(o))

    def __gt__(self, o):
        return SBool(self.t > toi(o))

    def __le__(self, o):
        return SBool(self.t <= toi(o))

    def __lt__(self, o):
        return SBool(self.t < toi(o))

    def __eq__(self, o):
        if o is None:
            return False
        try:
            return SBool(self.t == toi(o))
        except TypeError:
            return NotImplemented

    def __ne__(self, o):
        if o is None:
            return True
        try:
            return SBool(self.t != toi(o))
        except TypeError:
            return NotImplemented

    def __hash__(self):
        return 0

    def __bool__(self):
        return Ctx.cur.decide(self.t != 0)

    def __index__(self):
        raise HarnessError('SInt used as index (concretise explicitly)')

    def __repr__(self):
        return 'SInt(%s)' % self.t

    def __deepcopy__(self, memo):
        return self


class SEnum:
    """Symbolic member of a finite list of real string constants.

    `==`/`!=` against a real string builds a term; `__hash__` concretises by
    forking over the constants (needed when used as probe key in a dict whose
    stored keys are real strings) and returns the real string's hash.
    """
    __slots__ = ('t', 'values')

    def __init__(self, t, values):
        self.t = t
        self.values = list(values)

    @classmethod
    def fresh(cls, ctx, name, values):
        t = ctx.fresh_int(name)
        ctx.solver.add(t >= 0, t < len(values))
        return cls(t, values)

    def _code(self, o):
        if isinstance(o, SEnum):
            if o.values != self.values:
                raise HarnessError('SEnum domains differ')
            return o.t
        if o in self.values:
            return z3.IntVal(self.values.index(o))
        return None

    def __eq__(self, o):
        c = self._code(o)
        if c is None:
            return False
        return SBool(self.t == c)

    def __ne__(self, o):
        c = self._code(o)
        if c is None:
            return True
        return SBool(self.t != c)

    def concretize(self):
        i = Ctx.cur.concretize_int(self.t, 0, len(self.values) - 1)
        return self.values[i]

    def lower(self):
        return SEnum(self.t, [v.lower() if isinstance(v, str) else v for v in self.values])

    def upper(self):
        return SEnum(self.t, [v.upper() if isinstance(v, str) else v for v in self.values])

    def __hash__(self):
        return hash(self.concretize())

    def __str__(self):
        return str(self.concretize())

    def __repr__(self):
        return 'SEnum(%s)' % self.t

    def __deepcopy__(self, memo):
        return self

    def __bool__(self):
        # truthiness of the underlying constant
        return bool(self.concretize())


class SSet:
    """Subset of a fixed finite universe, as a bit-vector."""

    def __init__(self, U, bv):
        self.U = list(U)
        self.n = len(self.U)
        self.bv = bv if z3.is_expr(bv) else z3.BitVecVal(bv, self.n)

    def _mask(self, o):
        if isinstance(o, SSet):
            return o.bv
        m = 0
        for x in o:
            if x in self.U:
                m |= 1 << self.U.index(x)
        return z3.BitVecVal(m, self.n)

    def _bit(self, i):
        return z3.Extract(i, i, self.bv) == 1

    def __sub__(self, o):
        return SSet(self.U, self.bv & ~self._mask(o))

    def __or__(self, o):
        return SSet(self.U, self.bv | self._mask(o))

    def __and__(self, o):
        return SSet(self.U, self.bv & self._mask(o))

    def intersection(self, o):
        return self & o

    def union(self, o):
        return self | o

    def difference(self, o):
        return self - o

    def __isub__(self, o):
        return SSet(self.U, self.bv & ~self._mask(o))

    def __ior__(self, o):
        return SSet(self.U, self.bv | self._mask(o))

    def add(self, x):
        self.bv = self.bv | self._mask([x])

    def discard(self, x):
        self.bv = self.bv & ~self._mask([x])

    def __contains__(self, x):
        if x not in self.U:
            return False
        return bool(SBool(self._bit(self.U.index(x))))

    def __eq__(self, o):
        return SBool(self.bv == self._mask(o))

    def __ne__(self, o):
        return SBool(self.bv != self._mask(o))
    __hash__ = None

    def __len__(self):
        raise HarnessError('len() of SSet: shadow len in the module under test')

    def slen(self):
        return SInt(z3.Sum([z3.If(self._bit(i), 1, 0) for i in range(self.n)]))

    def copy(self):
        return SSet(self.U, self.bv)

    def __iter__(self):
        for i, u in enumerate(self.U):
            if SBool(self._bit(i)):
                yield u

    def __bool__(self):
        return Ctx.cur.decide(self.bv != 0)

    def __repr__(self):
        return 'SSet(%s)' % self.bv


def sym_set(x=()):
    if isinstance(x, SSet):
        return x.copy()
    return builtins.set(x)


def sym_len(x):
    if isinstance(x, SSet):
        return x.slen()
    return builtins.len(x)


def sym_list(x=()):
    if isinstance(x, SSet):
        return builtins.list(iter(x))
    return builtins.list(x)


def model_value(m, term):
    v = m.eval(term, model_completion=True)
    if z3.is_int_value(v):
        return v.as_long()
    if z3.is_true(v):
        return True
    if z3.is_false(v):
        return False
    if z3.is_bv_value(v):
        return v.as_long()
    if z3.is_string_value(v):
        return v.as_string()
    return str(v)
