"""Evidence writer, counterexample handling, known findings, exit codes.

Exit codes: 0 held within bounds (possibly with KNOWN-FINDING lines);
1 reproduced violation (VIOLATION line); 3 inconclusive / harness error.
"""
import hashlib
import json
import os
import sys
import time

ROOT = os.path.dirname(os.path.dirname(os.path.abspath(__file__)))
# (the seed-trial script redirects both so that trials never overwrite committed evidence)
EVIDENCE_DIR = os.environ.get('VERIF_EVIDENCE_DIR') or os.path.join(ROOT, 'evidence')
REPLAY_DIR = os.environ.get('VERIF_REPLAY_DIR') or os.path.join(ROOT, 'replays')
KNOWN = os.path.join(ROOT, 'known_findings.json')


class Cex:
    """A counterexample: concrete data + replay verdict + signature.

    signature: canonical description of *what fails* (input shape / call site),
    used to match known_findings.json entries.  `reproduced` must be the
    outcome of running the real code concretely on `data`.
    """

    def __init__(self, prop, signature, data, reproduced, summary):
        self.prop = prop
        self.signature = signature
        self.data = data
        self.reproduced = reproduced
        self.summary = summary


class Report:
    def __init__(self, prop, tier, seed):
        self.prop = prop
        self.tier = tier
        self.seed = seed
        self.t0 = time.time()
        self.states = 0
        self.transitions = 0
        self.queries = 0
        self.solver_s = 0.0
        self.obligations = 0
        self.aborted = 0
        self.validated = 0
        self.samples = []
        self.cexs = []
        self.functions_encoded = []
        self.bounds = {}
        self.stubs = []
        self.cuts = []
        self.outside_claim = []
        self.assumptions = []
        self.parts = {}
        self.errors = []
        self.extra = {}

    def add_stats(self, st, part=None):
        d = st.as_dict() if hasattr(st, 'as_dict') else dict(st)
        self.states += d.get('paths', 0)
        self.transitions += d.get('decisions', 0)
        self.queries += d.get('queries', 0)
        self.solver_s += d.get('solver_s', 0.0)
        self.obligations += d.get('obligations', 0)
        self.aborted += d.get('aborted', 0)
        if part:
            p = self.parts.setdefault(part, dict(paths=0, decisions=0,
                                                 queries=0, solver_s=0.0,
                                                 obligations=0, aborted=0))
            for k in p:
                p[k] = round(p[k] + d.get(k, 0), 3)

    def add_part(self, part, **kw):
        p = self.parts.setdefault(part, {})
        for k, v in kw.items():
            if isinstance(v, (int, float)) and isinstance(p.get(k), (int, float)):
                p[k] = round(p[k] + v, 3)
            else:
                p[k] = v

    def sample(self, s, cap=8):
        if len(self.samples) < cap:
            self.samples.append(s)

    def error(self, msg):
        self.errors.append(msg)


def load_known():
    if not os.path.exists(KNOWN):
        return {'findings': [], 'fixed': []}
    with open(KNOWN) as f:
        return json.load(f)


def finish(rep):
    """Write evidence, print verdict lines, return exit code."""
    known = load_known()
    listed = {(k['property'], k['signature']): k for k in known.get('findings', [])}
    viol = []
    knownhits = {}
    unreproduced = []
    for c in rep.cexs:
        if not c.reproduced:
            unreproduced.append(c)
            continue
        k = listed.get((c.prop, c.signature))
        if k is not None:
            knownhits.setdefault((c.prop, c.signature), (k, c))
        else:
            viol.append(c)
    os.makedirs(EVIDENCE_DIR, exist_ok=True)
    os.makedirs(REPLAY_DIR, exist_ok=True)
    lines = []
    seen = set()
    for c in viol:
        if c.signature in seen:
            continue
        seen.add(c.signature)
        blob = json.dumps(dict(property=c.prop, signature=c.signature,
                               summary=c.summary, data=c.data),
                          sort_keys=True, indent=1, default=str)
        dig = hashlib.sha1(blob.encode()).hexdigest()[:10]
        path = os.path.join(REPLAY_DIR, '%s-%s.json' % (c.prop, dig))
        with open(path, 'w') as f:
            f.write(blob)
        lines.append('VIOLATION property=%s replay=%s' % (c.prop, path))
        print('  counterexample [%s]: %s' % (c.signature, c.summary))
    for (p, s), (k, c) in sorted(knownhits.items()):
        print('KNOWN-FINDING: property=%s %s [%s]' % (p, k.get('what', s), k.get('id', '')))
    for c in unreproduced:
        rep.error('counterexample did not reproduce on the real code '
                  '(harness/model error): %s: %s' % (c.signature, c.summary))
    wall = time.time() - rep.t0
    cov = dict(
        states=rep.states, transitions=rep.transitions,
        traces_validated_against_impl=rep.validated,
        samples=rep.samples or ['(no sample recorded)'],
        queries=rep.queries, solver_s=round(rep.solver_s, 2),
        obligations_unsat=rep.obligations, aborted_paths=rep.aborted,
        functions_encoded=rep.functions_encoded, bounds=rep.bounds,
        stubs=rep.stubs, cuts=rep.cuts, outside_claim=rep.outside_claim,
        parts=rep.parts, exhaustive=False,
        known_findings_hit=sorted(s for (_, s) in knownhits),
        errors=rep.errors,
    )
    cov.update(rep.extra)
    ev = dict(property_id=rep.prop, tier=rep.tier, seed=rep.seed,
              level='model_checking', coverage=cov,
              assumptions=rep.assumptions, wall_s=round(wall, 2),
              violations=len(seen))
    code = 0
    if rep.errors or rep.states < 1 or rep.transitions < 1:
        code = 3
    if lines:
        code = 1
    # an inconclusive run must not leave valid-looking evidence of success
    ev['coverage']['verdict'] = {0: 'held-within-bounds', 1: 'violation',
                                 3: 'inconclusive'}[code]
    with open(os.path.join(EVIDENCE_DIR, '%s.json' % rep.prop), 'w') as f:
        json.dump(ev, f, indent=1, default=str)
    for l in lines:
        print(l)
    for e in rep.errors:
        print('HARNESS-ERROR property=%s %s' % (rep.prop, e), file=sys.stderr)
    print('%s %s: %s  states=%d transitions=%d queries=%d solver_s=%.1f '
          'validated=%d wall=%.1fs' % (rep.prop, rep.tier,
                                       ev['coverage']['verdict'], rep.states,
                                       rep.transitions, rep.queries,
                                       rep.solver_s, rep.validated, wall))
    return code
