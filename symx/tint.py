"""TInt: tagged symbolic integer.

An `int` subclass whose concrete payload is a unique id >= 10**6 and whose z3
term lives in a registry.  `'%d' % x`, f-strings and str() therefore render the
id; `decode` maps a rendered string back to terms, and `sym_int` (shadowing
`int` in the module under test) maps a parsed id back to its TInt.
"""
import builtins
import re
import z3

from .core import SBool, Ctx

BASE = 1000000
REG = {}
_next = [BASE]


def reset():
    REG.clear()
    _next[0] = BASE


class TInt(int):
    def __new__(cls, term):
        pid = _next[0]
        _next[0] += 1
        o = int.__new__(cls, pid)
        o.t = term if z3.is_expr(term) else z3.IntVal(term)
        REG[pid] = o.t
        return o

    @staticmethod
    def _w(o):
        if isinstance(o, TInt):
            return o.t
        if isinstance(o, bool):
            return z3.IntVal(int(o))
        if isinstance(o, int):
            if o >= BASE:
                raise RuntimeError('raw payload leaked into arithmetic')
            return z3.IntVal(o)
        raise TypeError(type(o))

    def __add__(self, o):
        return TInt(self.t + self._w(o))
    __radd__ = __add__

    def __sub__(self, o):
        return TInt(self.t - self._w(o))

    def __rsub__(self, o):
        return TInt(self._w(o) - self.t)

    def __neg__(self):
        return TInt(-self.t)

    def __eq__(self, o):
        if o is None or not isinstance(o, int):
            return False
        return SBool(self.t == self._w(o))

    def __ne__(self, o):
        if o is None or not isinstance(o, int):
            return True
        return SBool(self.t != self._w(o))

    def __lt__(self, o):
        return SBool(self.t < self._w(o))

    def __le__(self, o):
        return SBool(self.t <= self._w(o))

    def __gt__(self, o):
        return SBool(self.t > self._w(o))

    def __ge__(self, o):
        return SBool(self.t >= self._w(o))

    def __hash__(self):
        return 0

    def __bool__(self):
        return Ctx.cur.decide(self.t != 0)

    def __deepcopy__(self, memo):
        return self

    def __copy__(self):
        return self


def sym_int(x, *a):
    """Replacement for `int` in the module under test."""
    if isinstance(x, TInt):
        return x
    v = builtins.int(x, *a)
    if v >= BASE and v in REG:
        o = builtins.int.__new__(TInt, v)
        o.t = REG[v]
        return o
    return v


def decode(s):
    """Terms of the digit runs of a rendered string."""
    out = []
    for neg, x in re.findall(r'(-?)(\d+)', s):
        v = builtins.int(x)
        t = REG[v] if v >= BASE and v in REG else z3.IntVal(v)
        out.append(-t if neg else t)
    return out
