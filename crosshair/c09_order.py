"""CrossHair contracts (unbounded ints) on the real ordering functions used by
the cascade and the queues.  Each private function's postcondition is searched
for a counterexample by `crosshair check --report_all`."""
from typing import Optional

from bert_e.workflow.gitwaterflow.branches import compare_branches, compare_queues


def _sign(x: int) -> int:
    return (x > 0) - (x < 0)


def _key(ma: int, mia: Optional[int]):
    # the statement's order: (x, y) lexicographic, development/x after every x.*
    return (ma, 1 if mia is None else 0, 0 if mia is None else mia)


def _compare_branches_is_the_statement_order(ma: int, mia: Optional[int],
                                             mb: int, mib: Optional[int]) -> bool:
    """
    pre: ma >= 0 and mb >= 0
    pre: mia is None or mia >= 0
    pre: mib is None or mib >= 0
    post: _
    """
    x = compare_branches(((ma, mia), None), ((mb, mib), None))
    ka, kb = _key(ma, mia), _key(mb, mib)
    return _sign(x) == (1 if ka > kb else (-1 if ka < kb else 0))


def _compare_branches_antisymmetric(ma: int, mia: Optional[int],
                                    mb: int, mib: Optional[int]) -> bool:
    """
    pre: ma >= 0 and mb >= 0
    pre: mia is None or mia >= 0
    pre: mib is None or mib >= 0
    post: _
    """
    a = ((ma, mia), None)
    b = ((mb, mib), None)
    return _sign(compare_branches(a, b)) == -_sign(compare_branches(b, a))


def _compare_queues_puts_stab_before_its_dev(ma: int, mia: int, mic: int,
                                             mb: int, mib: int) -> bool:
    """
    pre: ma >= 0 and mia >= 0 and mic >= 0 and mb >= 0 and mib >= 0
    post: _
    """
    stab = ((ma, mia, mic), None)
    dev = ((mb, mib), None)
    x = compare_queues(stab, dev)
    y = compare_queues(dev, stab)
    if (ma, mia) == (mb, mib):
        return x < 0 and y > 0
    exp = 1 if (ma, mia) > (mb, mib) else -1
    return _sign(x) == exp and _sign(y) == -exp


def _compare_queues_on_devs_is_compare_branches(ma: int, mia: Optional[int],
                                                mb: int, mib: Optional[int]) -> bool:
    """
    pre: ma >= 0 and mb >= 0
    pre: mia is None or mia >= 0
    pre: mib is None or mib >= 0
    post: _
    """
    a = ((ma, mia), None)
    b = ((mb, mib), None)
    return _sign(compare_queues(a, b)) == _sign(compare_branches(a, b))
