"""CrossHair contracts for C16: the masking primitive of bert_e.lib.simplecmd
(str.replace with '***') leaves no occurrence of the secret.  (CrossHair 0.0.110
crashes on symbolic bytes.replace and does not finish quote_plus on symbolic
str: the bytes branch relies on the documented identical semantics of
bytes.replace, the URL form is checked structurally in harness/c16.py.)"""


def _mask_is_total(data: str, pwd: str) -> bool:
    """
    pre: 1 <= len(pwd) <= 3 and len(data) <= 6
    pre: '*' not in pwd
    post: _
    """
    return pwd not in data.replace(pwd, '***')
