#!/usr/bin/env python3
"""Regenerate MANIFEST.json from the table below (keeps it valid at all times)."""
import json
import os

HERE = os.path.dirname(os.path.abspath(__file__))
ALL = ['C%02d' % i for i in range(1, 21)]

TECH = 'bounded symbolic execution of the real functions (own forking executor on z3 proxies), per-path solver query against an oracle formula; counterexamples replayed concretely'

CHECKS = {
    'C04': dict(
        text='Every path of the real check_approvals (with the real bypass helpers and '
             'PullRequestJob.author_bypass) is executed on symbolic settings, counts and user sets; '
             'at the end of each path z3 decides pass <=> statement-oracle for all values on that path. '
             'Bounded: 5-user universe; counts are unbounded integers.',
        note='Trusts z3, the proxy classes (validated by concrete witness replay of sampled paths on the '
             'unshadowed implementation) and the host contract that approvers are participants.',
        design='3/C04', technique=TECH),
    'C06': dict(
        text='Every path of the real check_build_status / bypass_build_status is executed on symbolic statuses '
             '(5 values per integration tip, 1-4 tips), symbolic bypass sources and build-key truthiness; z3 decides, per '
             'path, outcome class == statement oracle for all values. A status read on any other commit or key is a fresh '
             'unconstrained value, so reading the wrong tip is refuted.',
        note='Trusts z3 and the SEnum proxy (validated by witness replay on the real function). History clause '
             '(superseded tips) is covered by the symgit runs, not here.',
        design='3/C06', technique=TECH),
    'C18': dict(
        text='The live regular expressions of every class tried by branch_factory are translated from their sre parse tree '
             'to z3 regexes; classification (first match in factory order) is proved equal to an independently written '
             'grammar per kind by two regex-inclusion queries each, generated w/, q/, q/w/ names are proved to land in their '
             'class, and decomposition uniqueness follows from solver-checked structure + slash-freeness of the id and '
             'version groups. No length bound; printable ASCII.',
        note='Trusts z3 sequence theory and the sre->z3 translator (validated against re / branch_factory on solver-generated '
             'members and non-members every run). Python backtracking choice of numeric sub-groups is tested on samples only.',
        design='3/C18', technique='regex language inclusion/emptiness in z3 over the sre parse tree of the live patterns',
        engine='rx2z3'),
}

NA_REASON = 'check not built yet in this revision of /verif (see DESIGN.md section 6 build order)'


def main():
    checks = []
    for pid in ALL:
        if pid not in CHECKS:
            continue
        c = CHECKS[pid]
        checks.append(dict(
            property_id=pid,
            quick_cmd='./vcheck %s --tier quick' % pid,
            thorough_cmd='./vcheck %s --tier thorough' % pid,
            evidence_file='evidence/%s.json' % pid,
            replay_cmd_template='./vcheck %s --replay {path}' % pid,
            engine=c.get('engine', 'symx'),
            level_claimed=dict(category='model_checking', text=c['text'],
                               design_ref=c['design']),
            level_note=c['note'],
            technique=c['technique']))
    na = [dict(property_id=p, reason=NA.get(p, NA_REASON)) for p in ALL if p not in CHECKS]
    man = dict(
        version=1,
        setup_cmd='./vsetup',
        hooks=dict(guard='SCALITY_BERT_E_VERIF', enable='no hooks: checks import /repo unmodified and shadow builtins in module globals at run time',
                   baseline_off_cmd='cd /repo && /venv/bin/python -m pytest -ra -q -p no:cacheprovider --timeout=900 --continue-on-collection-errors',
                   source_commits=[], add_only=True),
        engines=[
            dict(name='rx2z3', path='rx2z3/', serves_properties=[p for p in sorted(CHECKS) if CHECKS[p].get('engine') == 'rx2z3'],
                 kind_free_text='sre parse tree -> z3 regular expressions; language queries'),
            dict(name='symx', path='symx/', serves_properties=[p for p in sorted(CHECKS) if CHECKS[p].get('engine', 'symx') == 'symx'],
                 kind_free_text='forking symbolic executor for real Python function objects on z3 proxies'),
        ],
        checks=checks,
        notes='All checks are bounded symbolic checks: "holds for all values within the stated bounds". Exit 3 = inconclusive (never reported as success).',
        not_applicable=na)
    with open(os.path.join(HERE, 'MANIFEST.json'), 'w') as f:
        json.dump(man, f, indent=1)
    print('MANIFEST.json: %d checks, %d not_applicable' % (len(checks), len(na)))


NA = {}

if __name__ == '__main__':
    main()
