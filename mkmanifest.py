#!/usr/bin/env python3
"""Regenerate MANIFEST.json from the table below (keeps it valid at all times)."""
import json
import os

HERE = os.path.dirname(os.path.abspath(__file__))
ALL = ['C%02d' % i for i in range(1, 21)]

TECH_GIT = ('bounded symbolic execution of the real workflow functions on a symbolic git repository '
            '(closure bit-vector model of the git binary behind Repository.cmd), z3 query per monitor after each remote update; '
            'counterexamples and sampled paths replayed on a real repository with /usr/bin/git')
HIST = (' Histories (DESIGN 11): the monitors also stay installed while complete jobs (BertE.process -> handle_pull_request / handle_merge_queues, each from a fresh clone of what the previous one left) are chained on one symbolic repository: evaluate, source pushed, evaluate, queue evaluation, evaluate; two pull requests queued one behind the other.')
TECH = 'bounded symbolic execution of the real functions (own forking executor on z3 proxies), per-path solver query against an oracle formula; counterexamples replayed concretely'

CHECKS = {
    'C01': dict(
        text='Inductive step on a symbolic repository: the real queue-merge (handle_merge_queues with the real cascade, '
             'QueueCollection build/validate/_process, merge_queues, close_queued_pull_request, push) and direct-merge '
             '(merge_integration_branches, robust/octopus/consecutive merge, push) routines run on a repository whose commit '
             'graph (ancestor-closure bit-vectors), ref tips, build statuses and merge conflicts are symbolic, assuming only '
             'inclusion before the job; after every observable remote update z3 decides inclusion for all graphs on the path. '
             'Bounded: <= 18 pre-existing commits, <= 2 queued PRs, 1-4 destinations, enumerated cascade shapes.' + HIST,
        note='Trusts z3, the symgit model of the git binary (every run replays sampled path witnesses on a real repository '
             'with /usr/bin/git and compares outcome, refs and ancestry) and the assumption that only the encoded routines write '
             'destination branches. Counterexamples are replayed on real git before they are reported.',
        design='3/C01', technique=TECH_GIT),
    'C02': dict(
        text='Same symbolic runs as C01 with the all-or-none monitor evaluated after every observable remote update (each ref of a '
             'non-atomic push, the whole transaction of an atomic one), with a symbolic per-ref refusal by the server inside each '
             'push; crash points need no enumeration because the remote state at every boundary is checked for all graphs. '
             'Because the pre-state of the queue merge is arbitrary, every state a crashed add_to_queue can leave is included. '
             'Recovery (DESIGN 11): on bounded histories of complete jobs the script is run uninterrupted and again with a crash at a '
             'solver-chosen boundary (before each git push / host write of each job), the event is re-delivered to a fresh server '
             '(with the documented queue reset when the queues are reported out of order) and the content of every destination at '
             'the end must equal the uninterrupted run.',
        note='Content = the ancestor closure without the commits made by conflict-free merges (no file contents); conflicts and '
             'build results are functions of that content in the recovery histories. Recovery is bounded to 2 targets (thorough 3), '
             '1-2 PRs, crash between operations (refusals of single refs inside a push are the single-job runs). Assumes independent PRs.',
        design='3/C02', technique=TECH_GIT),
    'C03': dict(
        text='Queue merges from an arbitrary symbolic repository with symbolic build statuses: whenever a destination moves, its new '
             'tip must be a commit whose status is SUCCESSFUL (tip identity is tracked: a fast-forward keeps the built commit, a merge '
             'commit is a fresh, never-built commit) unless force-merged. Direct merges in skip_queue_when_not_needed mode run the real '
             'check_in_sync, check_build_status, build_queue_collection, is_needed and merge_integration_branches in the handler order. '
             'Queues with hotfix / stabilization / major branches: the concrete-graph queues of C05 (real add_to_queue per pull request, '
             'symbolic statuses, real handle_merge_queues) under the same clause (DESIGN 12).' + HIST,
        note='Cut: update_integration_branches (needs git log) - paths that are not in sync are dropped. The longest-green-prefix '
             'clause is decided in C05.',
        design='3/C03', technique=TECH_GIT),
    'C04': dict(
        text='Every path of the real check_approvals (with the real bypass helpers and '
             'PullRequestJob.author_bypass) is executed on symbolic settings, counts and user sets; '
             'at the end of each path z3 decides pass <=> statement-oracle for all values on that path. '
             'Bounded: 5-user universe; counts are unbounded integers.',
        note='Trusts z3, the proxy classes (validated by concrete witness replay of sampled paths on the '
             'unshadowed implementation) and the host contract that approvers are participants.',
        design='3/C04', technique=TECH),
    'C05': dict(
        text='The queue is built by the real add_to_queue on a symgit repository with a concrete commit graph, one call per PR '
             'in entry order; the status of every queue commit is symbolic (5 values). The real handle_merge_queues then runs and '
             'the refs it leaves on the remote are compared, for all status assignments on each path, with the longest-all-green-'
             'prefix oracle (hotfix queues independent). Structures and PR destinations are enumerated (5 structures, <= 3 PRs; '
             'thorough adds a seeded sample of 4-PR queues).',
        note='Concrete graphs only (every PR branched from its destination, no conflicts). Deviations are classified by kind; '
             'the reproduced shortest-list defect of _process (F1) is a known finding. Sampled paths and every counterexample '
             'are replayed on a real repository with /usr/bin/git.',
        design='3/C05', technique=TECH_GIT),
    'C06': dict(
        text='Every path of the real check_build_status / bypass_build_status is executed on symbolic statuses '
             '(5 values per integration tip, 1-4 tips), symbolic bypass sources and build-key truthiness; z3 decides, per '
             'path, outcome class == statement oracle for all values. A status read on any other commit or key is a fresh '
             'unconstrained value, so reading the wrong tip is refuted. The complete handler on the symbolic repository (no-queue / queue / '
             'skip-queue) with the monitors "queued only if every integration tip is green" and "what is merged directly was built with '
             'its destination inside"; the same monitors along histories evaluate / source pushed / evaluate twice (DESIGN 11). The '
             'per-author source of the bypass goes through the real settings loader (PrAuthorsOptions.deserialize).',
        note='Trusts z3 and the SEnum proxy (validated by witness replay on the real function). Handler and history parts: 2 targets '
             '(thorough 3), git log answers empty, build results are functions of the commit content in histories.',
        design='3/C06', technique=TECH),
    'C08': dict(
        text='In the symbolic runs of C01/C02 every remote update is monitored: destinations move only by fast-forward '
             '(closure inclusion), no ref outside w/, q/, tmp/ and the destinations is updated or deleted; before each push a '
             'symbolic third-party action (new branch, commit pushed to a source branch, source branch rewound) is applied to '
             'the server. Reproduced findings about `push --all --prune` are listed in known_findings.json.' + HIST,
        note='Partial: true concurrency inside git is not modelled (the third-party action is serialised before the push); '
             'delete-branch job and Branch.remove guard are checked in C20.',
        design='3/C08', technique=TECH_GIT),
    'C09': dict(
        text='The real BranchCascade.add_branch/update_versions/_update_major_versions/finalize/_set_target_versions run on '
             'branch objects built by the real constructors whose version numbers are tagged symbolic integers (unbounded); tags '
             'are strings rendered from symbolic numbers and parsed back by the real regex. z3 decides, per path, target set, '
             'order, ignored set, fix versions and rejection class against the statement for all numbers (orderings and '
             'coincidences between lines included). Structure (2-4 branches, 0-3 tags, insertion orders, destination) is '
             'enumerated. Plus CrossHair ordering lemmas (unbounded) and the tag language by rx2z3. Histories (DESIGN 11, 12): the cascade of a '
             'job depends on the tags / branches that exist now (a tag deleted on the host with a mirror cache; a stabilization branch deleted '
             'between two evaluations on one long-lived server, observed through the ticket gate).',
        note='TInt payload handling is validated by replaying a witness of sampled paths through the unshadowed code on real '
             'branch names against an independent plain-Python oracle. validate() version-mismatch rules are outside.',
        design='3/C09', technique=TECH + '; CrossHair contracts; regex inclusion in z3'),
    'C11': dict(
        text='Every path of the real jira_checks (check_issue_reference, get_jira_issue, check_project, check_issue_type, '
             'check_fix_versions, bypass_jira_check) on symbolic flags/memberships and an arbitrary subset of a 6-version '
             'fixVersions universe; z3 decides outcome class == statement oracle per path; the repository stub raises if touched. '
             'rx2z3 lemmas: the two version filters and the ticket-key group languages equal their specification. Histories (DESIGN 12): '
             'complete jobs on the symbolic repository with a ticket tracker whose ticket is edited (solver-chosen state) before each of '
             '3 (thorough 4) evaluations: outcome per current state, refusals leave the repository alone and are the robot\'s latest '
             'message with the current details.',
        note='Source names and target-version lists are enumerated (concrete); precedence among several failing conditions '
             'follows the statement order.',
        design='3/C11', technique=TECH),
    'C12': dict(
        text='The real handle_pull_request runs up to clone_git_repo with a repository stub that raises on any git command and a '
             'host stub that raises on any write but comments; PR status, wait comment, up to two after_pull_request comments '
             '(open/merged/declined/unknown/non-numeric ids), dependency statuses and prior greeting are symbolic; z3 decides '
             'outcome class and number of comments against the statement per path (the spelling of the hold comment is a solver-chosen '
             'element of the addressed-comment grammar). rx2z3: handled source/destination languages. Histories (DESIGN 11): on the '
             'symbolic repository a hold (wait; after_pull_request on an open PR) is added before / after a first evaluation, the PR is '
             'evaluated twice (no ref update, nothing but the hold message), the hold is lifted (comment removed / dependency merged) and '
             'the next evaluation must equal the evaluation of the never-held PR from the same state. A pull request declined before / after '
             'its first evaluation and evaluated twice only sees deletions of its integration branches (DESIGN 12).',
        note='Partial: hold positions are those of the listed histories (2 targets, no-queue and queue mode); what happens after the '
             'clone belongs to other properties.',
        design='3/C12', technique=TECH),
    'C13': dict(
        text='(a) real process_task/process with a handler raising each exception kind (incl. an exception whose __str__ raises): '
             'returns, job recorded done with its status, marker cleared, next job still served. (b) real put_job and job __eq__ '
             'on symbolic keys as a rely/guarantee step with interference (worker get / concurrent put) at every shared access: '
             'an accepted event stays owed unless an equal job is pending or its evaluation started after acceptance. (c) histories with `serve` '
             'events (put_job + the real process_task), a vanished scratch directory; (d) requests that only read leave the pending jobs '
             'and their order alone (DESIGN 12).',
        note='Partial: interleavings are at the granularity of put_job\'s shared accesses, not bytecode; Flask threading is outside.',
        design='3/C13', technique=TECH),
    'C14': dict(
        text='For every rule of the live Flask url_map the registered (decorated) view function is called inside a real request '
             'context where the session user/admin values, the configured webhook credentials and the configured repository '
             'identity are symbolic and pr ids are symbolic integers; branch names are solver-drawn members and near-misses of '
             'the accepted grammar. z3 decides per path: job enqueued iff authorised (admin-only set taken from the statement) '
             'and parameters valid; refusal has an error status; the job carries the validated parameters. rx2z3 lemma: the API '
             'branch grammar is within the GWF destination classes. Webhook deliveries: credential pairs around the configured pair, the '
             'payload naming its repository / not naming it (absent, null, empty, no identity). Requests that only read (every GET view, '
             '0-3 pending jobs) change neither the pending jobs nor their order (DESIGN 12).',
        note='Partial: werkzeug routing, OAuth login and webhook payload schema validation are outside; management forms are '
             'checked for their gate attribute only. Every cell is also re-run concretely (witness replay).',
        design='3/C14', technique=TECH),
    'C16': dict(
        text='Real simplecmd.cmd/_do_cmd with a Popen stub under symbolic mode (success, exit code, timeout, OSError), return code, '
             'str/bytes and log level; real lib.git Repository/Branch methods inside the real process_task with the k-th git '
             'command failing (symbolic k, mode); real github Client flows through a scripted session with symbolic status codes; the real '
             'GitHub (password, App with a really signed JWT) and Bitbucket clients on their real BertESession with a mounted host adapter '
             'that fails at a chosen exchange (connection error, timeout, HTTP 401-502, once or persistently; DESIGN 12). '
             'Sinks: returned output, exception text and rendered traceback chain, every log record, stdout, job.status/details/'
             'as_json. CrossHair lemma on the masking primitive; structural check that mask and clone-URL password use the same '
             'function.',
        note='Fault placement is solver-chosen but finite (fault enumeration in nature); secrets are concrete sentinels '
             '(URL-special, shell-special, non-ASCII); the wire part explores a finite schedule space (documents are concrete per path). '
             'Comment bodies over histories and what urllib3 itself logs are outside.',
        design='3/C16', technique=TECH + '; CrossHair contract on the masking primitive'),
    'C17': dict(
        text='(a) real AggregatedWorkflowRuns.state on 0-3 symbolic workflow runs: SUCCESSFUL only if some branch is '
             'all-green after dropping workflow_dispatch runs and keeping a best run per workflow. (b) green-verdict cache as an '
             'inductive step from an arbitrary cache content through each real webhook handler / poll with a symbolic host answer. '
             '(c) real LRUCache against a functional z3 reference under symbolic get/set sequences. (b\') histories of polls and status '
             'events over 2 commits x 2 keys through the real GitHub / Bitbucket clients, schemas and webhook handlers against an RFC 7232 '
             'host model mounted as transport adapter (ETag / Last-Modified / none; DESIGN 12).',
        note='In (b) event / status object constructors (schema validation) are stubbed, in (b\') nothing is, but documents are concrete '
             'per path (JSON and digests are C code): exhaustive over a finite schedule space. Workflow ids and branches are labelled in order '
             'of appearance (symmetry reduction).',
        design='3/C17', technique=TECH),
    'C18': dict(
        text='The live regular expressions of every class tried by branch_factory are translated from their sre parse tree '
             'to z3 regexes; classification (first match in factory order) is proved equal to an independently written '
             'grammar per kind by two regex-inclusion queries each, generated w/, q/, q/w/ names are proved to land in their '
             'class, and decomposition uniqueness follows from solver-checked structure + slash-freeness of the id and '
             'version groups. No length bound; printable ASCII.',
        note='Trusts z3 sequence theory and the sre->z3 translator (validated against re / branch_factory on solver-generated '
             'members and non-members every run). Python backtracking choice of numeric sub-groups is tested on samples only.',
        design='3/C18', technique='regex language inclusion/emptiness in z3 over the sre parse tree of the live patterns',
        engine='rx2z3'),
}

CHECKS['C07'] = dict(
    text='The real handle_comments with the real Reactor and the live registry (commands.setup) on comment lists whose authors '
         '(author / admin / other / robot, author optionally an admin) and texts are solver-chosen from a text set generated from '
         'the live registry (every option and command, unknown word, three syntaxes, =arg, separator pairs, unaddressed text, '
         'whitespace). Outcome (exception class and keyword, or the resulting option values) is compared with the statement.',
    note='Partial: the text grammar as a symbolic string is not decided (re.sub/split pipelines are out of reach of z3/CrossHair '
         'here); tokenisation is exercised on the generated texts only; one regex lemma (slash syntax) is proved with rx2z3. '
         'Choices are finite and solver-enumerated (exploration in nature).',
    design='3/C07', technique=TECH)
CHECKS['C10'] = dict(
    text='Comment-history mechanics as an inductive step: from every comment history of bounded length (symbolic authors and '
         'message kinds) the real handle_pull_request is evaluated three times in a row up to the clone, with the real Reactor, '
         'command handlers, notify_user/_send_comment/find_comment and the live dont_repeat_if_in_history attributes: no message '
         'twice in a row, a command executed by one evaluation is not executed by the next, the third evaluation posts nothing; '
         'option state does not leak between jobs. Convergence over repository states (DESIGN 11): on bounded histories of complete '
         'jobs on the symbolic repository (no-queue / queue / skip-queue; after queueing, after a source push, after a decline, commit '
         'events on source and integration tips, another held pull request evaluated in between) the same event is delivered five '
         'times: the 4th and 5th job make no ref update and no host write, no message is posted twice in a row, and a freshly started '
         'server gives the same outcome, ref updates and host writes as the long-lived one; also while every push fails (git host down).',
    note='Partial: _reset is a stub in the comment-history part; the repository-state part is bounded to the listed histories '
         '(2 targets, 1-2 PRs, <= 9 jobs; git log answers empty).',
    design='3/C10', technique=TECH)
CHECKS['C15'] = dict(
    text='The real commands._reset (reset and force_reset) with get_integration_branches, get_commit_diff, Commit.parents/author, '
         'Branch.remove and push runs on an explicit-DAG symbolic repository: the parents of every commit and author flag and all ref '
         'tips are symbolic, git log A..B is decided commit by commit. z3 decides per path: reset refuses iff the integration branch '
         'holds manual work (least-fixpoint oracle unrolled in z3, contributor merge commits count), a refusing reset touches '
         'nothing, a completing one deletes exactly the integration branches of this PR and declines exactly its integration PRs. '
         'Bounded: 4 commits (thorough 5), one integration branch. Histories (DESIGN 12): reset / force_reset (solver-chosen) asked '
         'twice (thorough: three times, 3 targets, queue mode) on a pull request without manual work with ordinary evaluations in '
         'between: each deletes exactly its integration branches and is followed by a rebuild.',
    note='Partial/bounded. Assumes git log lists children before parents and that the robot only authors merge commits. Sampled '
         'path witnesses and every counterexample are rebuilt as real repositories (real authors, parents) and run through the '
         'real code with /usr/bin/git.',
    design='3/C15', technique=TECH_GIT)
CHECKS['C19'] = dict(
    text='(b) the real create_integration_pull_requests / get_or_create_pull_request / get_pull_request_from_list as an '
         'inductive step on a host with up to 2 (thorough 3) pull requests whose source, destination and status are symbolic: '
         'exactly one open integration PR per target beyond the first afterwards, titled after the parent; (a) the real '
         'create_integration_branches on symgit creates exactly w/<version>/<source> for the targets beyond the first; (d) the '
         'real handle_declined_pull_request declines exactly the open integration PRs of the parent and deletes exactly its '
         'integration branches; (c) the parent id is the first digit run of the rendered description (z3 string query on the '
         'live template) and commit events on w/ or source tips resolve to the parent PR.',
    note='Orders and multiplicities of events are explored on bounded histories of complete jobs (DESIGN 11): every order of two '
         'events among PR event / commit event on the source tip / commit event on the integration tip followed by decline and '
         're-evaluation, two PRs merged by one queue evaluation; an event on the integration PR or on an integration / source commit is '
         'compared with the event on the parent from the same state. Longer histories are outside. Name injectivity comes from C18.',
    design='3/C19', technique=TECH)
CHECKS['C20'] = dict(
    text='The real create_branch, delete_branch, delete_queues and rebuild_queues jobs run on a symgit repository (symbolic commit '
         'graph and ref tips; enumerated ref/tag sets, branch names around the existing ones, branch_from absent / a branch / a '
         'symbolic commit, queued PR present or not, queues on/off). z3 decides per path: a new destination is published only if not '
         'archived, cascade-valid, C01 holds on the new cascade and no queued PR needs new intermediate branches; delete refuses iff '
         'queued PRs / live stabilization / archived and otherwise tags the deleted tip first; refusing jobs leave the remote '
         'untouched; queue jobs touch only q/* and rebuild re-submits exactly the queued PRs. Hotfix branches with several hotfix queues. '
         'Histories (DESIGN 11): the jobs also run in states reached by the real handler (pull requests queued by real evaluations): '
         'delete a targeted / an untargeted branch, create an intermediate / the newest branch, rebuild with two PRs queued (queue order not '
         'the id order). The order of re-submission is carried by the task queue: requests that only read must not reorder it (DESIGN 12).',
    note='Partial: bounded to the listed configurations and histories. One witness per configuration is re-run on a real repository '
         'with /usr/bin/git (outcome and remote change compared).',
    design='3/C20', technique=TECH_GIT)

NA_REASON = 'check not built yet in this revision of /verif (see DESIGN.md section 6 build order)'


def main():
    checks = []
    for pid in ALL:
        if pid not in CHECKS:
            continue
        c = CHECKS[pid]
        checks.append(dict(
            property_id=pid,
            quick_cmd='./vcheck %s --tier quick' % pid,
            thorough_cmd='./vcheck %s --tier thorough' % pid,
            evidence_file='evidence/%s.json' % pid,
            replay_cmd_template='./vcheck %s --replay {path}' % pid,
            engine=c.get('engine', 'symx'),
            level_claimed=dict(category='model_checking', text=c['text'],
                               design_ref=c['design']),
            level_note=c['note'],
            technique=c['technique']))
    na = [dict(property_id=p, reason=NA.get(p, NA_REASON)) for p in ALL if p not in CHECKS]
    man = dict(
        version=1,
        setup_cmd='./vsetup',
        hooks=dict(guard='SCALITY_BERT_E_VERIF', enable='no hooks: checks import /repo unmodified and shadow builtins in module globals at run time',
                   baseline_off_cmd='cd /repo && /venv/bin/python -m pytest -ra -q -p no:cacheprovider --timeout=900 --continue-on-collection-errors',
                   source_commits=[], add_only=True),
        engines=[
            dict(name='rx2z3', path='rx2z3/', serves_properties=[p for p in sorted(CHECKS) if CHECKS[p].get('engine') == 'rx2z3'],
                 kind_free_text='sre parse tree -> z3 regular expressions; language queries'),
            dict(name='symgit', path='symgit/', serves_properties=['C01', 'C02', 'C03', 'C05', 'C08', 'C15', 'C19', 'C20'],
                 kind_free_text='nondeterministic model of the git binary (closure bit-vectors) + real-git replayer'),
            dict(name='symx', path='symx/', serves_properties=[p for p in sorted(CHECKS) if CHECKS[p].get('engine', 'symx') == 'symx'],
                 kind_free_text='forking symbolic executor for real Python function objects on z3 proxies'),
        ],
        checks=checks,
        notes='All checks are bounded symbolic checks: "holds for all values within the stated bounds". Exit 3 = inconclusive (never reported as success).',
        not_applicable=na)
    with open(os.path.join(HERE, 'MANIFEST.json'), 'w') as f:
        json.dump(man, f, indent=1)
    print('MANIFEST.json: %d checks, %d not_applicable' % (len(checks), len(na)))


NA = {}

if __name__ == '__main__':
    main()
