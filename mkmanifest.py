#!/usr/bin/env python3
"""Regenerate MANIFEST.json from the table below (keeps it valid at all times)."""
import json
import os

HERE = os.path.dirname(os.path.abspath(__file__))
ALL = ['C%02d' % i for i in range(1, 21)]

TECH = 'bounded symbolic execution of the real functions (own forking executor on z3 proxies), per-path solver query against an oracle formula; counterexamples replayed concretely'

CHECKS = {
    'C04': dict(
        text='Every path of the real check_approvals (with the real bypass helpers and '
             'PullRequestJob.author_bypass) is executed on symbolic settings, counts and user sets; '
             'at the end of each path z3 decides pass <=> statement-oracle for all values on that path. '
             'Bounded: 5-user universe; counts are unbounded integers.',
        note='Trusts z3, the proxy classes (validated by concrete witness replay of sampled paths on the '
             'unshadowed implementation) and the host contract that approvers are participants.',
        design='3/C04', technique=TECH),
}

NA_REASON = 'check not built yet in this revision of /verif (see DESIGN.md section 6 build order)'


def main():
    checks = []
    for pid in ALL:
        if pid not in CHECKS:
            continue
        c = CHECKS[pid]
        checks.append(dict(
            property_id=pid,
            quick_cmd='./vcheck %s --tier quick' % pid,
            thorough_cmd='./vcheck %s --tier thorough' % pid,
            evidence_file='evidence/%s.json' % pid,
            replay_cmd_template='./vcheck %s --replay {path}' % pid,
            engine=c.get('engine', 'symx'),
            level_claimed=dict(category='model_checking', text=c['text'],
                               design_ref=c['design']),
            level_note=c['note'],
            technique=c['technique']))
    na = [dict(property_id=p, reason=NA.get(p, NA_REASON)) for p in ALL if p not in CHECKS]
    man = dict(
        version=1,
        setup_cmd='./vsetup',
        hooks=dict(guard='SCALITY_BERT_E_VERIF', enable='no hooks: checks import /repo unmodified and shadow builtins in module globals at run time',
                   baseline_off_cmd='cd /repo && /venv/bin/python -m pytest -ra -q -p no:cacheprovider --timeout=900 --continue-on-collection-errors',
                   source_commits=[], add_only=True),
        engines=[
            dict(name='symx', path='symx/', serves_properties=sorted(CHECKS),
                 kind_free_text='forking symbolic executor for real Python function objects on z3 proxies'),
        ],
        checks=checks,
        notes='All checks are bounded symbolic checks: "holds for all values within the stated bounds". Exit 3 = inconclusive (never reported as success).',
        not_applicable=na)
    with open(os.path.join(HERE, 'MANIFEST.json'), 'w') as f:
        json.dump(man, f, indent=1)
    print('MANIFEST.json: %d checks, %d not_applicable' % (len(checks), len(na)))


NA = {}

if __name__ == '__main__':
    main()
