"""Entry point: python -m harness.run <Cnn> [--tier quick|thorough] [--replay path]."""
import argparse
import importlib
import json
import os
import sys
import tempfile
import traceback

from symx.report import Report, finish
from symx.core import HarnessError


def main():
    ap = argparse.ArgumentParser()
    ap.add_argument('prop')
    ap.add_argument('--tier', default=os.environ.get('VERIF_TIER', 'quick'),
                    choices=['quick', 'thorough'])
    ap.add_argument('--replay')
    a = ap.parse_args()
    seed = int(os.environ.get('VERIF_SEED', '0') or 0)
    # never touch the real ~/.bert-e cache, keep scratch out of /repo, /verif
    scratch = tempfile.mkdtemp(prefix='verif-%s-' % a.prop)
    os.environ['HOME'] = scratch
    os.environ['TMPDIR'] = scratch
    tempfile.tempdir = scratch
    mod = importlib.import_module('harness.%s' % a.prop.lower())
    code = 3
    try:
        if a.replay:
            with open(a.replay) as f:
                data = json.load(f)
            ok = mod.replay(data['data'])
            print('replay of %s: %s' % (a.replay, 'REPRODUCED' if ok else 'not reproduced'))
            if ok:
                print('VIOLATION property=%s replay=%s' % (a.prop, a.replay))
            code = 1 if ok else 0
        else:
            rep = Report(a.prop, a.tier, seed)
            try:
                mod.check(rep)
            except HarnessError as e:
                rep.error('HarnessError: %s' % e)
            except Exception as e:          # harness bug: inconclusive, never success
                traceback.print_exc()
                rep.error('harness exception: %r' % e)
            code = finish(rep)
    finally:
        import shutil
        shutil.rmtree(scratch, ignore_errors=True)
    sys.exit(code)


if __name__ == '__main__':
    main()
