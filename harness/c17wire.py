"""C17, sequences of polls and status events through the real HTTP stack.

The one-step cache checks of c17.py replace `AggregatedStatus.get` / `BuildStatus.get` by a
symbolic answer.  Here nothing of Bert-E is replaced: the real `github.Client` (its
conditional-request cache, `AbstractGitHostObject.get` with its shared default arguments, the
marshmallow schemas, `BertESession.request`) or the real `bitbucket.Client` talk to the host
model of ghwire.py, and the real webhook handlers receive real payloads.

A history is: an initial host state, then k steps, each a poll `get_build_status(commit,
key)` (after an optional change of what the host reports for that commit) or a status event
for a commit.  The schedule (who is polled, under which key, what changed, which validator
the host uses) is chosen by the forking executor; the documents themselves are concrete on
each path, because JSON and the ETag digest are computed in C.

Oracle (the statement, nothing more): a (commit, key) Bert-E has answered SUCCESSFUL, or was
told SUCCESSFUL by an event, must be answered SUCCESSFUL; one whose host report was
SUCCESSFUL while Bert-E fetched that commit may be answered SUCCESSFUL or the current report;
any other must be answered exactly what the host reports now.
"""
import types

from symx.core import explore
from symx.report import Cex
from . import common, ghwire as W

COMMITS = ['a' * 40, 'b' * 40]
GH_KEYS = ['pre-merge', 'github_actions']
BB_KEYS = ['pre-merge', 'other']
GH_OF = {'pending': 'INPROGRESS', 'success': 'SUCCESSFUL', 'failure': 'FAILED', 'error': 'FAILED',
         'absent': 'NOTSTARTED'}
RUNS_OF = {'none': 'NOTSTARTED', 'success': 'SUCCESSFUL', 'failure': 'FAILED', 'running': 'INPROGRESS'}


def _runs(sha, r):
    if r == 'none':
        return []
    if r == 'running':
        return [W.run_doc(sha, None, status='in_progress')]
    return [W.run_doc(sha, r)]


class BBWire(W.Wire):
    """api.bitbucket.org: the build status of a commit under a key (404 when there is none)."""

    def document(self, method, path, query, body):
        parts = path.strip('/').split('/')
        if parts[:4] == ['2.0', 'repositories', 'o', 'r']:
            rest = parts[4:]
            if not rest:
                return 200, {'owner': {'username': 'o'}, 'slug': 'r', 'full_name': 'o/r'}
            if rest[0] == 'commit' and rest[2:4] == ['statuses', 'build'] and len(rest) == 5:
                st = self.statuses.get(rest[1], {}).get(rest[4])
                if st is None:
                    return 404, {'type': 'error'}
                return 200, {'state': st, 'key': rest[4], 'url': 'https://ci.example/%s' % rest[1],
                             'description': 'build', 'name': rest[4]}
        return 404, {'type': 'error'}


def play(kind, validators, init, steps):
    """Run a history on the real adapters.  Returns (violations, trace)."""
    from bert_e.git_host import cache, github as gh, bitbucket as bb
    import bert_e.git_host.base as base
    import bert_e.server.webhook as wh
    from .gitflow import make_berte
    W.reset_process_state()
    keys = GH_KEYS if kind == 'github' else BB_KEYS
    orig = base.BertESession
    if kind == 'github':
        wire = W.Wire(validators)

        def mk():
            s = orig()
            s.mount('https://', wire)
            return s
        gh.base.BertESession = mk
        try:
            client = gh.Client('bot', 'pw', 'bot@x')
        finally:
            gh.base.BertESession = orig
        repo = client.get_repository('r', 'o')
    else:
        wire = BBWire('none')
        client = bb.Client('bot', 'pw', 'bot@x')
        client.mount('https://', wire)
        repo = client.get_repository('r', 'o')
    berte = make_berte(None, types.SimpleNamespace(full_name='o/r'))
    berte.client = client
    host = {}                                   # (commit, key) -> Bert-E vocabulary

    def set_status(c, s):
        sha = COMMITS[c]
        if kind == 'github':
            if s == 'absent':
                wire.statuses.get(sha, {}).pop(keys[0], None)
            else:
                wire.statuses.setdefault(sha, {})[keys[0]] = s
            host[(c, 0)] = GH_OF[s]
        else:
            if s == 'absent':
                wire.statuses.get(sha, {}).pop(keys[0], None)
                host[(c, 0)] = 'NOTSTARTED'
            else:
                wire.statuses.setdefault(sha, {})[keys[0]] = s
                host[(c, 0)] = s

    def set_other(c, r):
        sha = COMMITS[c]
        if kind == 'github':
            wire.runs[sha] = _runs(sha, r)
            host[(c, 1)] = RUNS_OF[r]
        else:
            if r == 'absent':
                wire.statuses.get(sha, {}).pop(keys[1], None)
                host[(c, 1)] = 'NOTSTARTED'
            else:
                wire.statuses.setdefault(sha, {})[keys[1]] = r
                host[(c, 1)] = r
    for c in (0, 1):
        set_status(c, init[c][0])
        set_other(c, init[c][1])
    must, may = set(), set()
    bad, trace = [], []
    try:
        for step in steps:
            if step[0] == 'poll':
                _, c, k, us, ur = step
                if us != 'keep':
                    set_status(c, us)
                if ur != 'keep':
                    set_other(c, ur)
                n0 = len(wire.exchanges)
                try:
                    got = repo.get_build_status(COMMITS[c], keys[k])
                except Exception as e:
                    got = 'raised %s' % type(e).__name__
                want = host[(c, k)]
                trace.append(('poll', c, keys[k], 'host=%s' % want, 'answer=%s' % got,
                              [(e[1].split('/o/r')[-1][:60], {h: v for h, v in e[2].items() if h.startswith('If-')},
                                e[3]) for e in wire.exchanges[n0:]]))
                if (c, k) in must:
                    if got != 'SUCCESSFUL':
                        bad.append('a commit answered SUCCESSFUL earlier is answered %s' % got)
                elif (c, k) in may:
                    if got not in ('SUCCESSFUL', want):
                        bad.append('answer %s is neither the remembered SUCCESSFUL nor the host\'s %s' % (got, want))
                elif got != want:
                    bad.append('answer %s differs from what the host reports (%s)' % (got, want))
                if got == 'SUCCESSFUL':
                    must.add((c, k))
                if len(wire.exchanges) > n0:             # Bert-E fetched that commit: it saw every key
                    for kk in (0, 1):
                        if host[(c, kk)] == 'SUCCESSFUL' and (kind == 'github' or kk == k):
                            may.add((c, kk))
            else:
                _, c, s = step
                set_status(c, s)
                sha = COMMITS[c]
                if kind == 'github':
                    payload = {'sha': sha, 'state': s, 'context': keys[0], 'description': 'build',
                               'target_url': 'https://ci.example/%s' % sha, 'id': 1, 'name': 'o/r',
                               'repository': W.REPO_DOC}
                    job = wh.handle_github_status_event(berte, payload)
                    said = GH_OF[s]
                else:
                    payload = {'commit_status': {'state': s, 'key': keys[0], 'url': 'https://ci.example/' + sha,
                                                 'description': 'build', 'name': keys[0],
                                                 'links': {'commit': {'href': 'https://api.bitbucket.org/2.0/'
                                                                              'repositories/o/r/commit/' + sha}}},
                               'repository': {'full_name': 'o/r'}}
                    job = wh.handle_bitbucket_repo_event(berte, 'commit_status_updated', payload)
                    said = s
                trace.append(('event', c, keys[0], said, 'job' if job is not None else 'no job'))
                if (job is not None) != (said != 'INPROGRESS'):
                    bad.append('status event %s: %s' % (said, 'no job' if job is None else 'a job for a starting build'))
                if job is not None and getattr(job, 'commit', sha) != sha:
                    bad.append('status event: job for another commit')
                if said == 'SUCCESSFUL':
                    must.add((c, 0))
    finally:
        cache.BUILD_STATUS_CACHE.clear()
    return bad, trace


# ---------------------------------------------------------------------------
def family(tier):
    # (thorough keeps the same change sets and adds a step: 70 choices per step, 343 000 histories for the ETag host;
    #  larger sets did not finish in an hour on a loaded machine)
    gh_s = ['keep', 'success', 'failure', 'absent']
    gh_r = ['keep', 'none', 'success', 'failure']
    bb_s = ['keep', 'SUCCESSFUL', 'FAILED', 'INPROGRESS', 'absent']
    fams = [
        # every change between polls, short
        dict(key='github full', kind='github', n=2 if tier == 'quick' else 3,
             validators=['etag', 'date', 'none'] if tier == 'quick' else ['etag'],
             inits=[('absent', 'none')], upd_s=gh_s, upd_r=gh_r, events=['pending', 'success', 'failure']),
        # longer, the host only changes through events; every initial report
        dict(key='github polls', kind='github', n=3 if tier == 'quick' else 4, validators=['etag', 'date'],
             inits=[('success', 'none'), ('failure', 'none'), ('absent', 'success')], upd_s=['keep'], upd_r=['keep'],
             events=['failure'] if tier == 'quick' else ['success', 'failure']),
        dict(key='bitbucket', kind='bitbucket', n=2 if tier == 'quick' else 3, validators=['none'],
             inits=[('absent', 'absent'), ('FAILED', 'SUCCESSFUL')], upd_s=bb_s,
             upd_r=['keep'],
             events=['INPROGRESS', 'SUCCESSFUL', 'FAILED']),
    ]
    return fams


def make_harness(f):
    def h(ctx):
        validators = f['validators'][ctx.choose('validators', len(f['validators']))]
        init = [f['inits'][ctx.choose('init%d' % c, len(f['inits']))] for c in (0, 1)]
        steps = []
        for i in range(f['n']):
            poll = True
            if f['events']:
                poll = ctx.choose('step%d_kind' % i, 2) == 0
            c = ctx.choose('step%d_commit' % i, 2)
            if poll:
                k = ctx.choose('step%d_key' % i, 2)
                us = f['upd_s'][ctx.choose('step%d_status' % i, len(f['upd_s']))]
                ur = f['upd_r'][ctx.choose('step%d_other' % i, len(f['upd_r']))]
                steps.append(('poll', c, k, us, ur))
            else:
                steps.append(('event', c, f['events'][ctx.choose('step%d_state' % i, len(f['events']))]))
        bad, trace = play(f['kind'], validators, init, steps)
        ctx.stats.obligations += len(steps)
        return dict(bad=bad[:1], data=dict(part='wire', kind=f['kind'], validators=validators, init=init, steps=steps),
                    answers=[t[4] for t in trace if t[0] == 'poll'])
    return h


def _explore(f):
    results, st = explore(make_harness(f), max_paths=3000000, max_depth=400)
    return results, st


def part(rep):
    import bert_e.server.webhook as wh
    from bert_e.git_host import github as gh, bitbucket as bb
    import bert_e.git_host.base as base
    common.silence(gh, wh, bb, base)
    rep.functions_encoded += [
        'github.Client.__init__/headers/get/_get/_cache_value/_get_cached_value (real conditional-request cache)',
        'git_host.base.AbstractGitHostObject.get/load (shared default arguments, marshmallow schemas)',
        'git_host.base.BertESession.request over requests.Session (header merging) with a mounted host adapter',
        'github.Repository.get_commit_status/get_build_status, AggregatedStatus, Status, AggregatedWorkflowRuns '
        'on real JSON', 'bitbucket.Client/_get, BitBucketObject.get, Repository.get_build_status on real JSON',
        'webhook.handle_github_status_event / handle_bitbucket_repo_event on real payloads (real schemas)']
    fams = family(rep.tier)
    W.reset_process_state()
    rep.bounds['wire histories'] = {f['key']: dict(steps=f['n'], validators=f['validators'], initial=f['inits'],
                                                   status_changes=f['upd_s'], other_key_changes=f['upd_r'],
                                                   events=f['events']) for f in fams}
    rep.assumptions += ['wire histories: the host honours RFC 7232 (304 only when the validator sent matches the '
                        'current representation of the requested resource); documents are concrete per path (JSON '
                        'and the ETag digest are C code), the schedule is explored by forking; no HTTP fault in '
                        'these histories (404 for a missing Bitbucket status only)']
    for f in fams:
        results, st = common.explore_parallel(make_harness(f), split_depth=5, max_paths=3000000)
        rep.add_stats(st, 'wire histories, ' + f['key'])
        answers = set(a for _, r in results for a in r['answers'])
        if not {'answer=SUCCESSFUL', 'answer=FAILED', 'answer=NOTSTARTED'} <= answers:
            rep.error('vacuity: wire histories %s only reached %s' % (f['key'], sorted(answers)))
        seen = set()
        for _, r in results:
            if r['bad']:
                sig = 'wire (%s): %s' % (f['kind'], r['bad'][0])
                if sig in seen:
                    continue
                seen.add(sig)
                rep.cexs.append(Cex('C17', sig, r['data'], replay(r['data']),
                                    '%s in history %r' % (r['bad'][0], r['data'])))
            else:
                rep.validated += 1


def replay(data):
    bad, trace = play(data['kind'], data['validators'], [tuple(x) for x in data['init']],
                      [tuple(s) for s in data['steps']])
    return bool(bad)
