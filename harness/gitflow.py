"""Shared scenarios on the symbolic repository (symgit) for C01/C02/C03/C08/C20.

A *shape* is a concrete set of destination branch names; what the refs point
to and how the commits are related is symbolic.  The oracles below are written
from the property statements, independently of the implementation (own version
ordering, own target computation).
"""
import re
import types
import z3

from symx.core import SBool, HarnessError, PathAbort, model_value
import symgit
from symgit import SymRepo, SSha, StatusHost
from . import common

BUILD_KEY = 'pre-merge'


# -- independent reading of branch names ---------------------------------------
def parse_dest(name):
    m = re.fullmatch(r'development/(\d+)(?:\.(\d+))?', name)
    if m:
        return ('dev', int(m.group(1)), None if m.group(2) is None else int(m.group(2)), None)
    m = re.fullmatch(r'stabilization/(\d+)\.(\d+)\.(\d+)', name)
    if m:
        return ('stab', int(m.group(1)), int(m.group(2)), int(m.group(3)))
    m = re.fullmatch(r'hotfix/(\d+)\.(\d+)\.(\d+)', name)
    if m:
        return ('hotfix', int(m.group(1)), int(m.group(2)), int(m.group(3)))
    return None


def dev_key(name):
    k = parse_dest(name)
    return (k[1], 1 if k[2] is None else 0, k[2] or 0)


def ordered_devs(shape):
    return sorted([d for d in shape if parse_dest(d)[0] == 'dev'], key=dev_key)


def inclusion_pairs(shape):
    """(a, b): every commit of a must be reachable from b (C01 statement)."""
    devs = ordered_devs(shape)
    pairs = list(zip(devs, devs[1:]))
    for s in shape:
        k = parse_dest(s)
        if k[0] == 'stab':
            d = 'development/%d.%d' % (k[1], k[2])
            if d in shape:
                pairs.append((s, d))
    return pairs


def targets(shape, dst):
    """The branches a PR on dst is merged into (C09 statement)."""
    k = parse_dest(dst)
    if k[0] == 'hotfix':
        return [dst]
    devs = ordered_devs(shape)
    if k[0] == 'stab':
        d = 'development/%d.%d' % (k[1], k[2])
        return [dst] + devs[devs.index(d):]
    return devs[devs.index(dst):]


def version_of(dst):
    return dst.split('/', 1)[1]


class PR:
    def __init__(self, pid, src, dst):
        self.id = pid
        self.src = src
        self.dst = dst


def qw_name(pr, shape, t):
    return 'q/w/%d/%s/%s' % (pr.id, version_of(t), pr.src)


def w_name(pr, t):
    return 'w/%s/%s' % (version_of(t), pr.src)


# -- host / job stubs -----------------------------------------------------------
class Host(StatusHost):
    """Git host stub: statuses are symbolic (StatusHost); PR objects are
    concrete stubs; every write is recorded in `ops`."""

    def __init__(self, repo, prs, ctx):
        super().__init__(repo, BUILD_KEY)
        self.prs = {p.id: p for p in prs}
        self.ops = []
        self.ctx = ctx
        self.full_name = 'owner/slug'
        self.objs = {}

    def get_pull_request(self, pid):
        pid = int(pid)
        if pid not in self.prs:
            raise KeyError(pid)
        if pid not in self.objs:
            p = self.prs[pid]
            host = self

            class _PR(common.HostNames):
                id = p.id
                src_branch = p.src
                dst_branch = p.dst
                _author = 'contributor'
                author_display_name = 'contributor'
                status = 'OPEN'
                title = 'title'
                description = ''
                comments = []

                def add_comment(self, msg):
                    host.ops.append(('comment', p.id))
                    host.repo.remote_ops.append(dict(kind='host-comment', ref=str(p.id),
                                                     n=len(host.repo.remote_ops)))

                def set_bot_status(self, *a, **k):
                    host.ops.append(('bot_status', p.id))

                def decline(self):
                    host.ops.append(('decline', p.id))
            self.objs[pid] = _PR()
        return self.objs[pid]

    def get_pull_requests(self, src_branch=None, **kw):
        return []


def make_berte(repo, host, **settings):
    from bert_e.bert_e import BertE
    from bert_e.lib.settings_dict import SettingsDict
    from collections import deque
    import queue
    base = dict(build_key=BUILD_KEY, robot='robot', robot_email='robot@x',
                use_queue=True, no_comment=False, interactive=False,
                send_bot_status=False, frontend_url='', no_octopus=False,
                skip_queue_when_not_needed=False, backtrace=True, quiet=True,
                pull_request_base_url='http://x/{pr_id}',
                commit_base_url='http://x/{commit_id}', pr_author_options={},
                repository_host='mock', repository_owner='owner',
                repository_slug='slug', admins=[], project_leaders=[],
                # defaults of the settings schema that the code may read
                use_queues=True, disable_queues=False, organization='', cmd_line_options=[],
                always_create_integration_pull_requests=True,
                always_create_integration_branches=True, need_author_approval=True,
                required_leader_approvals=0, required_peer_approvals=2, jira_account_url='',
                jira_email='', jira_keys=[], prefixes={}, bypass_prefixes=[],
                disable_version_checks=False, max_commit_diff=0)
    base.update(settings)
    b = BertE.__new__(BertE)
    b.settings = SettingsDict(base)
    b.project_repo = host
    b.git_repo = repo
    b.task_queue = queue.Queue()
    b.tasks_done = deque(maxlen=1000)
    b.status = {}
    b.client = types.SimpleNamespace(login='robot')
    return b


def silence_all():
    import bert_e.workflow.gitwaterflow as gwf
    import bert_e.workflow.gitwaterflow.branches as B
    import bert_e.workflow.gitwaterflow.queueing as Q
    import bert_e.workflow.gitwaterflow.integration as I
    import bert_e.workflow.git_utils as GU
    import bert_e.workflow.pr_utils as PU
    import bert_e.bert_e as BE
    import bert_e.lib.git as G
    common.silence(gwf, B, Q, GU, PU, BE, G)
    # retry budget exhausted at the first failure (rejections are persistent)
    global ORIG_WAIT
    if ORIG_WAIT is None:
        ORIG_WAIT = GU.RetryHandler.wait
    GU.RetryHandler.wait = _wait_raises
    return ['RetryHandler.wait raises at once: a push that failed is not '
            'retried (rejections are modelled as persistent within a job)']


ORIG_WAIT = None


def _wait_raises(self, err=None):
    raise err if err is not None else RuntimeError('retry timeout')


def cut_queue_validation_errors():
    """Cut: paths on which QueueCollection.validate() would fail end at the
    first error (validate raises IncoherentQueues iff >= 1 error is yielded)."""
    import bert_e.exceptions as ex
    saved = {}
    for n in dir(ex):
        c = getattr(ex, n)
        if (isinstance(c, type) and issubclass(c, ex.QueueValidationError)
                and c is not ex.QueueValidationError):
            saved[c] = c.__dict__.get('__init__')

            def __init__(self, *a, **k):
                raise PathAbort()
            c.__init__ = __init__
    return saved


def restore_queue_validation_errors(saved):
    for c, init in saved.items():
        if init is None:
            try:
                del c.__init__
            except AttributeError:
                pass
        else:
            c.__init__ = init


# -- worlds ------------------------------------------------------------------------
def queue_refs(shape, prs):
    refs = list(shape)
    for d in shape:
        refs.append('q/' + version_of(d))
    for p in prs:
        refs.append(p.src)
        ts = targets(shape, p.dst)
        for t in ts:
            refs.append(qw_name(p, shape, t))
        for t in ts[1:]:
            refs.append(w_name(p, t))
    return refs


def assume_inclusion(ctx, repo, shape, state=None):
    state = state or repo.remote
    for a, b in inclusion_pairs(shape):
        ctx.assume(repo.subset_t(repo.cl(state[a]), repo.cl(state[b])))


# -- monitors ------------------------------------------------------------------------
def mon_inclusion(shape):
    pairs = inclusion_pairs(shape)

    def mon(repo, op):
        if op['kind'] not in ('update', 'delete'):
            return []
        out = []
        for a, b in pairs:
            if a in repo.remote and b in repo.remote and op['ref'] in (a, b):
                out.append(('C01 inclusion %s in %s' % (a, b),
                            repo.subset_t(repo.cl(repo.remote[a]), repo.cl(repo.remote[b]))))
        return out
    return mon


def mon_fast_forward(shape):
    def mon(repo, op):
        if op['ref'] not in shape:
            return []
        if op['kind'] == 'delete':
            return [('C08 destination %s deleted' % op['ref'], z3.BoolVal(False))]
        if op['kind'] == 'update' and op['old'] is not None:
            return [('C08 fast-forward of %s' % op['ref'],
                     repo.subset_t(repo.cl(op['old']), repo.cl(op['new'])))]
        return []
    return mon


def is_robot_ref(name):
    return name.startswith(('w/', 'q/', 'tmp/'))


def mon_foreign(shape, allowed=()):
    def mon(repo, op):
        r = op['ref']
        if op['kind'] not in ('update', 'delete'):
            return []
        if is_robot_ref(r) or r in shape or r in allowed:
            return []
        return [('C08 foreign ref %s %sd' % (r, op['kind']), z3.BoolVal(False))]
    return mon


def mon_status(shape, bypass=z3.BoolVal(False)):
    def mon(repo, op):
        if op['kind'] != 'update' or op['ref'] not in shape or op['old'] is None:
            return []
        return [('C03 %s advanced to a commit without SUCCESSFUL build' % op['ref'],
                 z3.Or(op['new'] == op['old'], bypass,
                       repo.status_of(op['new']) == symgit.STATUSES.index('SUCCESSFUL')))]
    return mon


def changesets(state, shape, prs, scenario):
    """What `PR p has landed on target t` means, from the refs at job start:
    for a queued PR the commit queued for t (q/w/<id>/<t>), for a direct merge
    its source tip.  Returns {(pid, t): commit}."""
    out = {}
    for p in prs:
        for t in targets(shape, p.dst):
            if scenario == 'Q':
                if qw_name(p, shape, t) in state:        # (a configuration may lack some queue branches)
                    out[(p.id, t)] = state[qw_name(p, shape, t)]
            else:
                out[(p.id, t)] = state[p.src]
    return out


def all_or_none_cond(repo, shape, p, ch, state):
    ts = [t for t in targets(shape, p.dst) if t in state and (p.id, t) in ch]
    if len(ts) < 2:
        return None
    ins = [repo.subset_t(repo.cl(ch[(p.id, t)]), repo.cl(state[t])) for t in ts]
    return z3.Or(z3.And(*ins), z3.Not(z3.Or(*ins)))


def mon_all_or_none(shape, prs, scenario):
    """C02: after each observable remote update, every PR has landed on all of
    its targets or on none."""
    def mon(repo, op):
        if op['kind'] != 'update' or op['ref'] not in shape:
            return []
        ch = changesets(repo.pre_remote, shape, prs, scenario)
        out = []
        for p in prs:
            if op['ref'] not in targets(shape, p.dst):
                continue
            c = all_or_none_cond(repo, shape, p, ch, repo.remote)
            if c is not None:
                out.append(('C02 PR %d on some but not all of its targets' % p.id, c))
        return out
    return mon


def assume_all_or_none(ctx, repo, shape, prs, scenario):
    ch = changesets(repo.remote, shape, prs, scenario)
    for p in prs:
        c = all_or_none_cond(repo, shape, p, ch, repo.remote)
        if c is not None:
            ctx.assume(c)
    if scenario == 'Q':
        # every queued PR added a commit of its own on each of its versions
        for i, p in enumerate(prs):
            for q in prs[i + 1:]:
                for t in targets(shape, p.dst):
                    if t in targets(shape, q.dst) and (p.id, t) in ch and (q.id, t) in ch:
                        ctx.assume(ch[(p.id, t)] != ch[(q.id, t)])


# -- third-party interference (C08) ---------------------------------------------------------
def make_interference(ctx_holder, src_refs, new_name='feature/third-party'):
    """Before each push, at most once per job, a third party (symbolic choice):
    creates a new branch, pushes a commit to a source branch, or force-pushes
    (rewinds) a source branch.  Acts on the server only (not on tracking refs)."""
    state = {'done': False, 'log': []}

    def hook(repo, where):
        ctx = repo.ctx
        if state['done']:
            return
        kind = ctx.choose('third_party_action', 4)
        if kind == 0:
            return
        state['done'] = True
        if kind == 1:
            a = ctx.fresh_int('tp_atom')
            ctx.assume(z3.And(a >= 0, a < repo.N))
            repo.remote[new_name] = a
            state['log'].append(('create', new_name, where, a))
        elif kind == 2:
            for r in src_refs:
                if r in repo.remote:
                    repo.remote[r] = repo.fresh(repo.cl(repo.remote[r]), 'third-party commit on ' + r, parents=[repo.remote[r]])
                    state['log'].append(('advance', r, where, None))
                    break
        else:
            for r in src_refs:
                if r in repo.remote:
                    a = ctx.fresh_int('tp_rewind')
                    ctx.assume(z3.And(a >= 0, a < repo.N))
                    old = repo.cl(repo.remote[r])
                    ctx.assume(z3.And(repo.subset_t(repo.cl(a), old), repo.cl(a) != old))
                    repo.remote[r] = a
                    state['log'].append(('rewind', r, where, a))
                    break
    hook.state = state
    return hook


# -- running the real code on a backend (symbolic or real repository) -------------------------
def run_merge_queues(repo, host, force_merge=False):
    from bert_e.workflow.gitwaterflow import queueing as Q
    from bert_e.job import QueuesJob
    from bert_e import exceptions as ex
    from bert_e.lib import git as G
    berte = make_berte(repo, host)
    job = QueuesJob(bert_e=berte, force_merge=force_merge)
    try:
        Q.handle_merge_queues(job)
        return 'returned'
    except ex.Merged:
        return 'Merged'
    except (ex.NothingToDo, ex.QueueBuildFailed) as e:
        return type(e).__name__
    except ex.IncoherentQueues:
        return 'IncoherentQueues'
    except G.PushFailedException:
        return 'PushFailed'


def run_direct_merge(repo, shape, pr, no_octopus=False):
    from bert_e.workflow.gitwaterflow import branches as B, integration as I
    from bert_e.lib import git as G
    from bert_e.workflow.git_utils import clone_git_repo
    ts = targets(shape, pr.dst)
    dsts = [B.branch_factory(repo, t) for t in ts]
    wbs = []
    for k, t in enumerate(dsts):
        if k == 0:
            w = B.GhostIntegrationBranch(repo, pr.src, dsts[0])
        else:
            w = B.branch_factory(repo, w_name(pr, ts[k]))
        w.dst_branch = t
        wbs.append(w)
    job = types.SimpleNamespace(
        git=types.SimpleNamespace(repo=repo),
        settings=types.SimpleNamespace(no_octopus=no_octopus, robot='robot',
                                       robot_email='robot@x'),
        active_options=[])
    clone_git_repo(job)        # the caller (_handle_pull_request) has cloned
    try:
        I.merge_integration_branches(job, wbs)
        return 'merged'
    except G.MergeFailedException:
        return 'conflict'
    except G.PushFailedException:
        return 'pushfail'


def direct_refs(shape, pr):
    ts = targets(shape, pr.dst)
    return list(shape) + [pr.src] + [w_name(pr, t) for t in ts[1:]]


# -- symbolic scenarios -----------------------------------------------------------------------
def scenario_merge_queues(ctx, shape, prs, natoms, monitors, force_merge=False,
                          reject=None, interfere=None, nfresh=4, pre=None, drop=()):
    """Run the real handle_merge_queues from an arbitrary repository state.
    `drop`: refs that do not exist (e.g. the q/ branch of a destination that was
    published after the pull requests were queued)."""
    refs = [r for r in queue_refs(shape, prs) if r not in drop]
    repo = SymRepo(ctx, refs, natoms, nfresh, interfere=interfere)
    repo.reject_refs = reject
    repo.log_cut = True      # only use: commit list inside the PartialMerge message
    ctx.assume(symgit.status_domain(repo, natoms + nfresh))
    assume_inclusion(ctx, repo, shape)
    if pre:
        pre(ctx, repo)
    repo.monitors = list(monitors)
    host = Host(repo, prs, ctx)
    out = run_merge_queues(repo, host, force_merge)
    return repo, host, out


def scenario_direct_merge(ctx, shape, pr, natoms, monitors, no_octopus=False,
                          reject=None, interfere=None, nfresh=None, pre=None):
    """Run the real merge_integration_branches from an arbitrary state (the
    w/ branches are arbitrary refs: anybody can push to them)."""
    ts = targets(shape, pr.dst)
    refs = direct_refs(shape, pr)
    if nfresh is None:
        nfresh = 3 * len(ts) + 6
    repo = SymRepo(ctx, refs, natoms, nfresh, interfere=interfere)
    repo.reject_refs = reject
    # `git log A..B` is answered from the closures (parents of a pre-existing commit = the maximal
    # elements of its closure): the merge routines do not call it today; a change that makes them
    # depend on commit listings is then executed instead of ending the run as "unsupported command"
    repo.log_model = natoms <= 6          # (larger graphs: listing commits forks too much)
    ctx.assume(symgit.status_domain(repo, natoms + nfresh))
    assume_inclusion(ctx, repo, shape)
    if pre:
        pre(ctx, repo)
    repo.monitors = list(monitors)
    out = run_direct_merge(repo, shape, pr, no_octopus)
    return repo, out


def skip_queue_refs(shape, pr):
    return direct_refs(shape, pr) + ['q/' + version_of(d) for d in shape]


def run_skip_queue(repo, host, shape, pr, no_octopus=False, bypass=False):
    """The tail of _handle_pull_request in skip_queue_when_not_needed mode: the
    real check_in_sync, check_build_status, build_queue_collection, is_needed,
    QueueCollection.delete and merge_integration_branches, in the handler's order.
    Cut: update_integration_branches (needs `git log`); paths that are not in
    sync are dropped (the handler then pushes new w/ tips and waits for builds)."""
    from bert_e.workflow import gitwaterflow as gwf
    from bert_e.workflow.gitwaterflow import queueing, branches as B, integration as I
    from bert_e.workflow.git_utils import clone_git_repo
    from bert_e.job import PullRequestJob
    from bert_e import exceptions as ex
    from bert_e.lib import git as G
    berte = make_berte(repo, host, skip_queue_when_not_needed=True,
                       no_octopus=no_octopus, bypass_build_status=bypass)
    job = PullRequestJob(bert_e=berte, pull_request=host.get_pull_request(pr.id))
    clone_git_repo(job)
    job.git.cascade = B.BranchCascade()
    job.git.src_branch = B.branch_factory(repo, pr.src)
    job.git.dst_branch = B.branch_factory(repo, pr.dst)
    B.build_branch_cascade(job)
    wbranches = list(I.create_integration_branches(job))
    if not gwf.check_in_sync(job, wbranches):
        raise PathAbort()
    try:
        gwf.check_build_status(job, wbranches)
    except (ex.BuildFailed, ex.BuildNotStarted, ex.BuildInProgress) as e:
        return type(e).__name__
    queues = queueing.build_queue_collection(job)
    if queueing.is_needed(job, wbranches, queues):
        return 'queue'
    queues.delete()
    try:
        I.merge_integration_branches(job, wbranches)
        return 'merged'
    except G.MergeFailedException:
        return 'conflict'
    except G.PushFailedException:
        return 'pushfail'


def scenario_skip_queue(ctx, shape, pr, natoms, monitors_of, no_octopus=False,
                        reject=None, nfresh=None, pre=None):
    ts = targets(shape, pr.dst)
    refs = skip_queue_refs(shape, pr)
    if nfresh is None:
        nfresh = 3 * len(ts) + 6
    repo = SymRepo(ctx, refs, natoms, nfresh)
    repo.reject_refs = reject
    ctx.assume(symgit.status_domain(repo, natoms + nfresh))
    assume_inclusion(ctx, repo, shape)
    if pre:
        pre(ctx, repo)
    byp = z3.Bool('bypass_build_status')
    repo.monitors = list(monitors_of(byp))
    host = Host(repo, [pr], ctx)
    out = run_skip_queue(repo, host, shape, pr, no_octopus, SBool(byp))
    return repo, host, out


def run_add_to_queue(repo, host, shape, pr, no_octopus=True):
    """The real add_to_queue as the handler calls it (cascade + w branches built)."""
    from bert_e.workflow.gitwaterflow import branches as B, queueing as Q
    from bert_e.workflow.git_utils import clone_git_repo
    from bert_e.job import PullRequestJob
    from bert_e import exceptions as ex
    from bert_e.lib import git as G
    berte = make_berte(repo, host, no_octopus=no_octopus)
    job = PullRequestJob(bert_e=berte, pull_request=host.get_pull_request(pr.id))
    clone_git_repo(job)
    job.git.cascade = B.BranchCascade()
    job.git.src_branch = B.branch_factory(repo, pr.src)
    job.git.dst_branch = B.branch_factory(repo, pr.dst)
    B.build_branch_cascade(job)
    ts = targets(shape, pr.dst)
    dsts = job.git.cascade.dst_branches
    wbs = []
    for k, t in enumerate(dsts):
        w = B.GhostIntegrationBranch(repo, pr.src, dsts[0]) if k == 0 else \
            B.branch_factory(repo, w_name(pr, ts[k]))
        w.dst_branch = t
        wbs.append(w)
    try:
        Q.add_to_queue(job, wbs)
        return 'queued'
    except ex.QueueConflict:
        return 'conflict'
    except G.PushFailedException:
        return 'pushfail'


def scenario_queue_then_merge(ctx, shape, pr, natoms, no_octopus=True, nfresh=8, qrefs=True,
                              extra_monitors=None):
    """C02(c): the real add_to_queue with at most ONE ref refused by the server
    (the job then dies), followed by a fresh job evaluating the queues
    (handle_merge_queues) on whatever state the remote was left in."""
    ts = targets(shape, pr.dst)
    refs = direct_refs(shape, pr) + (['q/' + version_of(d) for d in shape] if qrefs else [])
    repo = SymRepo(ctx, refs, natoms, nfresh)
    repo.reject_refs = 'all'
    repo.log_cut = True
    ctx.assume(symgit.status_domain(repo, natoms + nfresh))
    assume_inclusion(ctx, repo, shape)
    # what the handler established before queueing: the integration branches are
    # in sync (each contains the previous one and its destination), the queue is
    # empty (q/<v> == destination), the change is on none of its targets yet
    prev = repo.cl(repo.remote[pr.src])
    for k, t in enumerate(ts):
        w = repo.cl(repo.remote[pr.src if k == 0 else w_name(pr, t)])
        ctx.assume(repo.subset_t(prev, w))
        ctx.assume(repo.subset_t(repo.cl(repo.remote[t]), w))
        ctx.assume(z3.Not(repo.subset_t(repo.cl(repo.remote[pr.src]), repo.cl(repo.remote[t]))))
        prev = w
    if qrefs:
        for d in shape:
            ctx.assume(repo.remote['q/' + version_of(d)] == repo.remote[d])
    host = Host(repo, [pr], ctx)
    if extra_monitors is not None:
        repo.monitors = list(extra_monitors)     # also observe the queueing job itself
    out1 = run_add_to_queue(repo, host, shape, pr, no_octopus)
    # "every single ref that the remote may reject": at most one refusal
    flags = list(repo.rejected.values())
    if len(flags) > 1:
        ctx.assume(z3.AtMost(*flags, 1))
    # a fresh job: new clone of the remote
    repo.tip = dict(repo.remote)
    repo.tracking = dict(repo.remote)
    repo.head = None
    repo.reject_refs = None
    src0 = repo.pre_remote[pr.src]

    def mon(r, op):
        if op['kind'] != 'update' or op['ref'] not in shape:
            return []
        ins = [r.subset_t(r.cl(src0), r.cl(r.remote[t])) for t in ts if t in r.remote]
        if len(ins) < 2:
            return []
        return [('C02 PR %d on some but not all of its targets' % pr.id,
                 z3.Or(z3.And(*ins), z3.Not(z3.Or(*ins))))]
    repo.monitors = [mon, mon_inclusion(shape)] if extra_monitors is None else list(extra_monitors)
    out2 = run_merge_queues(repo, host, False)
    return repo, host, out1, out2


# -- the whole pull-request handler -------------------------------------------------------------
class HandlerHost(Host):
    """Host stub for complete _handle_pull_request runs: the PR under evaluation
    is fully approved (approvals are not the subject), no integration PRs."""

    def __init__(self, repo, prs, ctx, pr_status='OPEN'):
        super().__init__(repo, prs, ctx)
        self.pr_status = pr_status

    def get_pull_request(self, pid):
        p = super().get_pull_request(pid)
        p.status = self.pr_status
        p.comments = getattr(p, '_comments', None) or []
        p._comments = p.comments
        p.get_approvals = lambda: ['contributor', 'peer']
        p.get_participants = lambda: ['contributor', 'peer']
        p.get_change_requests = lambda: []
        p.src_commit = None
        return p

    def create_pull_request(self, **kw):
        self.ops.append(('create_pr', kw.get('src_branch')))
        raise HarnessError('integration pull requests are disabled in this scenario')


HANDLER_OUTCOMES = ('Queued', 'SuccessMessage', 'BuildNotStarted', 'BuildInProgress', 'BuildFailed',
                    'Conflict', 'NothingToDo', 'QueueConflict', 'QueueOutOfOrder', 'PullRequestDeclined',
                    'Merged', 'QueueBuildFailed', 'IncoherentQueues', 'DevBranchesNotSelfContained',
                    'BranchHistoryMismatch')


def run_handle_pr(repo, host, pr, mode, no_octopus=False, bypass_build=False):
    """The real handle_pull_request (complete handler).  mode: queue / noqueue / skip."""
    import bert_e.workflow.gitwaterflow as gwf
    from bert_e.job import PullRequestJob
    from bert_e import exceptions as ex
    from bert_e.lib import git as G
    berte = make_berte(
        repo, host, use_queue=(mode != 'noqueue'), skip_queue_when_not_needed=(mode == 'skip'),
        no_octopus=no_octopus, need_author_approval=False, required_peer_approvals=0,
        required_leader_approvals=0, always_create_integration_branches=True,
        always_create_integration_pull_requests=False, jira_keys=[], jira_email='',
        jira_account_url='', bypass_prefixes=[], prefixes={}, max_commit_diff=0,
        disable_version_checks=True, bypass_build_status=bypass_build)
    job = PullRequestJob(bert_e=berte, pull_request=host.get_pull_request(pr.id))
    try:
        gwf.handle_pull_request(job)
        return 'returned'
    except ex.BertE_Exception as e:
        return type(e).__name__
    except G.PushFailedException:
        return 'PushFailed'
    except G.MergeFailedException:
        return 'MergeFailed'


def handler_refs(shape, pr, mode, with_w=True, queued=False):
    refs = list(shape) + [pr.src]
    ts = targets(shape, pr.dst)
    if with_w:
        refs += [w_name(pr, t) for t in ts[1:]]
    if mode != 'noqueue':
        refs += ['q/' + version_of(d) for d in shape]
    return refs


def mon_handler_builds(shape, pr, bypass, host):
    """C06 on the whole handler.  (i) A pull request is queued only if the tips
    of its integration branches on the remote are SUCCESSFUL.  (ii) In a direct
    merge every target beyond the first was built with its destination inside:
    the commit whose status the gate read for target k contains the tip that
    destination k had before the merge (otherwise what lands was never built)."""
    ok = symgit.STATUSES.index('SUCCESSFUL')
    ts = targets(shape, pr.dst)

    def mon(repo, op):
        out = []
        if op['kind'] == 'update' and op['ref'] in ts and op['old'] is not None:
            k = ts.index(op['ref'])
            asked = [sha for (sha, key) in host.asked if key == BUILD_KEY]
            if len(asked) >= len(ts):
                gate = asked[-len(ts):]
                out.append(('C06 merged although the build of %s was not SUCCESSFUL'
                            % ('the source tip' if k == 0 else 'an integration tip'),
                            z3.Or(bypass, repo.status_term(gate[k].idx) == ok)))
                if k >= 1:
                    out.append(('C06 the integration commit that was built does not contain its '
                                'destination (stale build)',
                                z3.Or(bypass, repo.subset_t(repo.cl(op['old']), repo.cl(gate[k].idx)))))
            else:
                out.append(('C06 destination moved without reading the build statuses', bypass))
        if op['kind'] == 'update' and op['ref'].startswith('q/w/'):
            for k, t in enumerate(ts):
                r = pr.src if k == 0 else w_name(pr, t)
                if r in repo.remote:
                    out.append(('C06 queued although the build of %s is not SUCCESSFUL'
                                % ('the source tip' if k == 0 else 'an integration tip'),
                                z3.Or(bypass, repo.status_term(repo.remote[r]) == ok)))
        return out
    return mon


def scenario_handle_pr(ctx, shape, pr, natoms, mode, monitors_of, no_octopus=False, nfresh=None,
                       with_w=True, pr_status='OPEN', pre=None, interfere=None):
    import bert_e.workflow.gitwaterflow as gwf
    refs = handler_refs(shape, pr, mode, with_w)
    if nfresh is None:
        # conflict probe, integration-branch updates, queue / direct merges: up to ~8 merge commits per target
        nfresh = 10 if len(targets(shape, pr.dst)) <= 2 and no_octopus else 8 * len(targets(shape, pr.dst)) + 4
    repo = SymRepo(ctx, refs, natoms, nfresh, interfere=interfere)
    repo.log_cut = True        # cut: history-mismatch check and commit listings in messages
    ctx.assume(symgit.status_domain(repo, natoms + nfresh))
    assume_inclusion(ctx, repo, shape)
    if mode != 'noqueue':
        # empty queues: q/<v> sits on its destination
        for d in shape:
            ctx.assume(repo.remote['q/' + version_of(d)] == repo.remote[d])
    if pre:
        pre(ctx, repo)
    byp = z3.Bool('bypass_build_status')
    host = HandlerHost(repo, [pr], ctx, pr_status)
    repo.monitors = list(monitors_of(byp, host))
    out = run_handle_pr(repo, host, pr, mode, no_octopus, SBool(byp))
    return repo, host, out


# -- counterexamples: concretise, replay on a real repository ----------------------------------
def cex_data(scenario, shape, prs, v, **params):
    return dict(scenario=scenario, shape=list(shape),
                prs=[[p.id, p.src, p.dst] for p in prs], label=v.label,
                world=v.world, op_index=getattr(v, 'op_index', None),
                conflicts=getattr(v, 'conflicts', 0), differs=getattr(v, 'differs', 0),
                merge_decisions=list(getattr(v, 'merge_decisions', [])),
                prefs_ok=getattr(v, 'prefs_ok', False), params=params,
                oplog=[' '.join(o) for o in v.oplog][-40:])


class Crash(BaseException):
    pass


def real_observe(world, shape, prs, pre_heads, statuses, scenario='D'):
    """Evaluate the monitors' conditions concretely on the real remote."""
    heads = world.heads()
    bad = []
    pre_heads = dict(pre_heads)
    pre_heads.update(getattr(world, 'third_party_heads', {}))
    for a, b in inclusion_pairs(shape):
        if a in heads and b in heads and not world.is_ancestor(heads[a], heads[b]):
            bad.append('C01 inclusion %s in %s' % (a, b))
    for d in shape:
        if d not in heads:
            bad.append('C08 destination %s deleted' % d)
            continue
        if heads[d] != pre_heads[d]:
            if not world.is_ancestor(pre_heads[d], heads[d]):
                bad.append('C08 fast-forward of %s' % d)
            if statuses.get(heads[d], 'NOTSTARTED') != 'SUCCESSFUL':
                bad.append('C03 %s advanced to a commit without SUCCESSFUL build' % d)
    for r, s in pre_heads.items():
        if r in shape or is_robot_ref(r):
            continue
        if r not in heads:
            bad.append('C08 foreign ref %s deleted' % r)
        elif heads[r] != s:
            bad.append('C08 foreign ref %s updated' % r)
    try:
        ch = changesets(pre_heads, shape, prs, scenario)
    except KeyError:
        ch = {}
    for p in prs:
        ts = [t for t in targets(shape, p.dst) if t in heads]
        if len(ts) < 2 or any((p.id, t) not in ch for t in ts):
            continue
        ins = [world.is_ancestor(ch[(p.id, t)], heads[t]) for t in ts]
        if any(ins) and not all(ins):
            bad.append('C02 PR %d on some but not all of its targets' % p.id)
    return bad, heads


def _third_party_callback(data):
    tp = data.get('third_party')
    if not tp:
        return None
    kind, ref, where, atom = tp[0]
    want = ' '.join(where.replace('before push', 'git push').split())

    def cb(world, command):
        if ' '.join(command.split()) != want or cb.done:
            return
        cb.done = True
        if kind == 'create':
            world.third_party_create(ref, atom)
        elif kind == 'advance':
            world.third_party_commit_on(ref)
        elif kind == 'rewind':
            world.third_party_set(ref, world.sha[atom])
    cb.done = False
    return cb


def nontrivial_merge(cwd, full):
    """Does this `git merge` command create a merge commit (git's own reduction of the heads:
    heads already merged or dominated by another head are dropped; one remaining head that
    contains HEAD is a fast-forward unless --no-ff)?  Returns the reduced heads or []."""
    import shlex
    import subprocess

    def g(*a):
        return subprocess.run(['git'] + list(a), cwd=cwd, stdout=subprocess.PIPE, stderr=subprocess.PIPE).returncode
    srcs = [t for t in shlex.split(full)[2:] if not t.startswith('--')]
    live = [x for x in srcs if g('merge-base', '--is-ancestor', x, 'HEAD') != 0]
    red = []
    for k, x in enumerate(live):
        dom = False
        for j, y in enumerate(live):
            if j == k:
                continue
            if g('merge-base', '--is-ancestor', x, y) == 0:
                if g('merge-base', '--is-ancestor', y, x) == 0 and k < j:
                    continue
                dom = True
                break
        if not dom:
            red.append(x)
    if not red:
        return []
    if len(red) == 1 and g('merge-base', '--is-ancestor', 'HEAD', red[0]) == 0 and '--no-ff' not in full:
        return []
    return red


def replay_on_real_git(data, crash_after_pushes=None, interference=None):
    """Build the model's repository with /usr/bin/git and run the real code.
    Returns (violated labels, outcome)."""
    from symgit.realgit import RealWorld, RealHost
    from bert_e.lib import git as G
    common.install_common_stubs()
    silence_all()
    w = data['world']
    shape = data['shape']
    prs = [PR(*x) for x in data['prs']]
    reject = [r for r, b in w.get('rejected', {}).items() if b and not r.startswith('tag:')]
    world = RealWorld(w['anc'], w['refs'], w.get('tags'), reject=reject)
    try:
        host = RealHost(world, w['status'], prs)
        pre_heads = world.heads()
        repo = world.repository()
        count = [0]
        orig_cmd = G.Repository.cmd

        if interference is None:
            interference = _third_party_callback(data)

        decisions = list(data.get('merge_decisions') or [])

        def cmd(self, command, *args, **kw):
            if command.startswith('git merge ') and decisions and self is repo:
                # the model's conflict decisions, imposed in order on the merges that are neither
                # "already up to date" nor fast-forwards (the real repositories never conflict)
                full = command % args if args else command
                if nontrivial_merge(self.cmd_directory, full) and decisions.pop(0):
                    from bert_e.lib.simplecmd import CommandError
                    raise CommandError('Command %s returned with code 1: CONFLICT (content): as the model says' % full)
            if command.startswith('git push'):
                if interference is not None:
                    interference(world, command % args if args else command)
                if crash_after_pushes is not None and count[0] >= crash_after_pushes:
                    raise Crash()
                count[0] += 1
            return orig_cmd(self, command, *args, **kw)
        G.Repository.cmd = cmd
        try:
            try:
                if data['scenario'] == 'merge_queues':
                    out = run_merge_queues(repo, host, data['params'].get('force_merge', False))
                elif data['scenario'] == 'skip_queue':
                    out = run_skip_queue(repo, host, shape, prs[0],
                                         data['params'].get('no_octopus', False),
                                         bool(data['params'].get('bypass', False)))
                elif data['scenario'] == 'handle_pr':
                    import bert_e.workflow.gitwaterflow as gwf
                    gwf.setup({})
                    host.pr_status = data['params'].get('pr_status', 'OPEN')
                    out = run_handle_pr(repo, host, prs[0], data['params']['mode'],
                                        data['params'].get('no_octopus', False),
                                        bool(data['params'].get('bypass', False)))
                elif data['scenario'] == 'queue_then_merge':
                    host.default = 'SUCCESSFUL'      # builds of the new queue commits went green
                    run_add_to_queue(repo, host, shape, prs[0], data['params'].get('no_octopus', True))
                    world.set_reject([])
                    repo.reset()
                    out = run_merge_queues(repo, host, False)
                elif data['scenario'] == 'direct_merge':
                    out = run_direct_merge(repo, shape, prs[0],
                                           data['params'].get('no_octopus', False))
                else:
                    raise HarnessError('unknown scenario %r' % data['scenario'])
            except Crash:
                out = 'crashed'
        finally:
            G.Repository.cmd = orig_cmd
            try:
                repo.delete()
            except Exception:
                pass
        bad, heads = real_observe(world, shape, prs, pre_heads, host.status,
                                  'Q' if data['scenario'] == 'merge_queues' else 'D')
        if data['scenario'] == 'queue_then_merge':
            bad = [b for b in bad if not b.startswith('C03')]
        if data['scenario'] == 'handle_pr':
            ts = targets(shape, prs[0].dst)
            asked = getattr(host, 'asked', [])
            if len(asked) >= len(ts):
                gate = asked[-len(ts):]
                for k in range(1, len(ts)):
                    if heads.get(ts[k]) != pre_heads.get(ts[k]) and not world.is_ancestor(pre_heads[ts[k]], gate[k]):
                        bad.append('C06 the integration commit that was built does not contain its '
                                   'destination (stale build)')
            if data['params'].get('pr_status') == 'DECLINED':
                left = [r for r in heads if r.startswith('w/') and r.endswith('/' + prs[0].src)]
                if left:
                    bad.append('C19 declined parent: integration branches left on the remote')
        return bad, out
    finally:
        world.cleanup()
