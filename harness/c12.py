"""C12 - held-back, finished and foreign pull requests are left alone.

Real code: gitwaterflow.handle_pull_request / _handle_pull_request up to
clone_git_repo (early_checks, send_greetings, handle_comments with the real
Reactor and the real `wait` / `after_pull_request` options, check_dependencies),
pr_utils.notify_user/find_comment.

The repository stub raises on ANY command but `ls-remote`; the host stub raises
on any write other than comments / bot status.  Symbolic: the PR status, whether
a `wait` comment exists, up to two after_pull_request comments with ids drawn
from {open, merged, declined, unknown id, non-numeric}, the status of each
referenced PR, whether the robot already greeted.
"""
import types
import z3

from symx.core import SBool, SEnum, explore, model_value, HarnessError, Ctx
from symx.report import Cex
import rx2z3 as R
from . import common

PR_STATUS = ['OPEN', 'DECLINED', 'MERGED', 'SUPERSEDED']
DEP_STATUS = ['OPEN', 'MERGED', 'DECLINED']
DEPS = ['5', '6', '99', 'abc', None]          # None: no such comment
# spellings of a comment addressed to the robot (the grammar of C07): every one
# of them must hold the pull request back
# robot account names (a GitHub App login carries brackets)
ROBOTS = ['robot', 'bert-e[bot]', 'ci+robot']
SPELL = ['@robot %s', '/%s', '@robot: %s', '  @robot %s', '\n/%s', '\t@robot %s  \n', '@robot   %s',
         '@robot %s\n']


class Touched(BaseException):
    pass


class ReachedClone(BaseException):
    pass


class HoldRepo:
    """Repository stub: only `ls-remote --heads` is allowed before the clone."""

    def __init__(self, branches):
        self._remote_branches = {}
        self._remote_heads = {}
        self.branches = branches
        self._url = 'u'
        self.log = []

    def remote_branch_exists(self, name, refresh_cache=False):
        self.log.append('ls-remote')
        return name in self.branches

    def clone(self):
        raise ReachedClone()

    def cmd(self, *a, **k):
        raise Touched('git command before the hold was evaluated: %r' % (a,))

    def __getattr__(self, n):
        raise Touched('repository access %s' % n)


def build(vals, sym, src='bugfix/PROJ-1-x', dst='development/4.3'):
    from bert_e.job import PullRequestJob
    from . import gitflow as GF
    ctx = Ctx.cur
    E = (lambda t, vs: SEnum(t, vs)) if sym else (lambda t, vs: vs[t])
    D = (lambda b: ctx.decide(b)) if sym else bool
    writes = []
    comments = []

    class Comment(common.HostNames):
        def __init__(self, author, text):
            self.author, self.text = author, text

    rb = ctx.concretize_int(vals['robot_i'], 0, len(ROBOTS) - 1) if sym else vals.get('robot_i', 0)
    robot = ROBOTS[rb]
    if D(vals['greeted']):
        comments.append(Comment(robot, 'Hello'))
    spw = ctx.concretize_int(vals['sp_wait'], 0, len(SPELL) - 1) if sym else vals['sp_wait']
    spd = spw          # one spelling per comment list (64 combinations would only multiply paths)
    if D(vals['wait']):
        comments.append(Comment('contributor', (SPELL[spw] % 'wait').replace('@robot', '@' + robot)))
    chosen = []
    for k in range(2):
        i = ctx.concretize_int(vals['dep%d' % k], 0, len(DEPS) - 1) if sym else vals['dep%d' % k]
        d = DEPS[i]
        chosen.append(d)
        if d is not None:
            comments.append(Comment('contributor', (SPELL[spd] % ('after_pull_request=%s' % d)).replace(
                '@robot', '@' + robot)))

    class PRObj(common.HostNames):
        id = 1
        _author = 'contributor'
        author_display_name = 'contributor'
        src_branch = src
        dst_branch = dst
        title = 't'
        description = ''
        status = E(vals['status'], PR_STATUS)

        def __init__(self):
            self.comments = comments

        def add_comment(self, msg):
            writes.append(('comment', msg))
            self.comments.append(Comment(robot, msg))

        def set_bot_status(self, *a, **k):
            writes.append(('bot_status',))

        def decline(self):
            raise Touched('decline')

        def get_approvals(self):
            raise Touched('approvals consulted')

        def get_participants(self):
            raise Touched('participants consulted')

        def get_change_requests(self):
            raise Touched('change requests consulted')

    class Host:
        full_name = 'o/r'

        def get_pull_request(self, pid):
            pid = int(pid)
            if pid == 5:
                return types.SimpleNamespace(id=5, status=E(vals['st5'], DEP_STATUS))
            if pid == 6:
                return types.SimpleNamespace(id=6, status=E(vals['st6'], DEP_STATUS))
            raise KeyError(pid)

        def get_pull_requests(self, **kw):
            raise Touched('host listing')

        def create_pull_request(self, **kw):
            raise Touched('create_pull_request')

        def get_build_status(self, *a):
            raise Touched('build status consulted')

    host = Host()
    repo = HoldRepo({'development/4.3', 'development/5.1'})
    berte = GF.make_berte(repo, host, robot=robot)
    job = PullRequestJob(bert_e=berte, pull_request=PRObj())
    return job, writes, chosen


def run(vals, sym, **kw):
    import bert_e.workflow.gitwaterflow as gwf
    from bert_e import exceptions as ex
    job, writes, chosen = build(vals, sym, **kw)
    try:
        gwf.handle_pull_request(job)
        out = 'returned'
    except ReachedClone:
        out = 'proceeds'
    except Touched as e:
        out = 'TOUCHED:%s' % e
    except (ex.NothingToDo, ex.NotMyJob, ex.AfterPullRequest, ex.IncorrectPullRequestNumber,
            ex.WrongDestination) as e:
        out = type(e).__name__
    kinds = [w[0] for w in writes]
    return out, kinds, chosen


def variables():
    v = dict(status=z3.Int('status'), st5=z3.Int('st5'), st6=z3.Int('st6'),
             dep0=z3.Int('dep0'), dep1=z3.Int('dep1'),
             wait=z3.Bool('wait'), greeted=z3.Bool('greeted'),
             sp_wait=z3.Int('sp_wait'), robot_i=z3.Int('robot_i'))
    return v


def pre(v):
    return z3.And(v['status'] >= 0, v['status'] < 4, v['st5'] >= 0, v['st5'] < 3,
                  v['st6'] >= 0, v['st6'] < 3, v['dep0'] >= 0, v['dep0'] < len(DEPS),
                  v['dep1'] >= 0, v['dep1'] < len(DEPS),
                  v['sp_wait'] >= 0, v['sp_wait'] < len(SPELL), v['robot_i'] >= 0, v['robot_i'] < len(ROBOTS),
                  # (an unusual robot name is combined with the canonical spellings only)
                  z3.Implies(v['robot_i'] != 0, v['sp_wait'] <= 2),
                  # the spelling only matters when a hold comment exists
                  z3.Implies(z3.And(z3.Not(v['wait']), v['dep0'] == len(DEPS) - 1, v['dep1'] == len(DEPS) - 1),
                             v['sp_wait'] == 0))


def oracle(v):
    """outcome class -> condition."""
    finished = z3.And(v['status'] != 0, v['status'] != 1)       # neither OPEN nor DECLINED
    dep = lambda k, i: v['dep%d' % k] == i                       # noqa
    uses = lambda i: z3.Or(dep(0, i), dep(1, i))                 # noqa
    unknown = uses(DEPS.index('99'))
    unmerged = z3.Or(z3.And(uses(0), v['st5'] != 1), z3.And(uses(1), v['st6'] != 1))
    return {
        'NothingToDo': z3.Or(finished, z3.And(z3.Not(finished), v['wait'])),
        'IncorrectPullRequestNumber': z3.And(z3.Not(finished), z3.Not(v['wait']), unknown),
        'AfterPullRequest': z3.And(z3.Not(finished), z3.Not(v['wait']), z3.Not(unknown), unmerged),
        'proceeds': z3.And(z3.Not(finished), z3.Not(v['wait']), z3.Not(unknown), z3.Not(unmerged)),
    }


def comment_rule(out, kinds, v):
    """Condition under which the observed comments are allowed."""
    finished = z3.And(v['status'] != 0, v['status'] != 1)
    n = kinds.count('comment')
    # finished PRs get no comment at all; otherwise at most the greeting (when
    # not greeted yet) plus the one hold message
    hold_msg = 1 if out in ('AfterPullRequest', 'IncorrectPullRequestNumber') else 0
    return z3.And(z3.Implies(finished, z3.BoolVal(n == 0)),
                  z3.Implies(z3.Not(finished),
                             z3.Or(z3.And(v['greeted'], z3.BoolVal(n == hold_msg)),
                                   z3.And(z3.Not(v['greeted']), z3.BoolVal(n == hold_msg + 1)))))


def make_harness(twin=False):
    def h(ctx):
        v = variables()
        ctx.assume(pre(v))
        out, kinds, chosen = run(v, True)
        orc = oracle(v)
        cond = z3.And(orc.get(out, z3.BoolVal(False)), comment_rule(out, kinds, v))
        if twin:
            cond = z3.And(cond, z3.BoolVal(out != 'AfterPullRequest'))
        ctx.stats.obligations += 1
        r, m = ctx.sat_model(z3.Not(cond))
        if r == 'sat':
            return dict(out=out, bad={k: model_value(m, t) for k, t in v.items()}, kinds=kinds, wit=None)
        r2, m2 = ctx.sat_model()
        return dict(out=out, bad=None, kinds=kinds,
                    wit={k: model_value(m2, t) for k, t in v.items()})
    return h


def concrete(vals, **kw):
    out, kinds, chosen = run(vals, False, **kw)
    v = variables()
    subs = [(t, z3.BoolVal(bool(vals[k])) if z3.is_bool(t) else z3.IntVal(vals[k])) for k, t in v.items()]
    orc = oracle(v)
    ok = [k for k, c in orc.items() if z3.is_true(z3.simplify(z3.substitute(c, *subs)))]
    cr = z3.is_true(z3.simplify(z3.substitute(comment_rule(out, kinds, v), *subs)))
    return out, ok, cr


def replay(data):
    common.install_common_stubs(common.named_render)
    _quiet()
    if 'history' in data:
        from . import histcheck
        return histcheck.replay('C12', data)
    if data.get('kind') == 'names':
        return names_concrete(data['src'], data['dst']) != data['expected']
    out, ok, cr = concrete(data['vals'])
    return out not in ok or not cr


def _quiet():
    import bert_e.workflow.gitwaterflow as gwf
    import bert_e.workflow.pr_utils as PU
    import bert_e.reactor as RX
    common.silence(gwf, PU, RX)


def names_concrete(src, dst):
    """Does early_checks proceed for (src, dst)?  (real code, concrete names)"""
    import bert_e.workflow.gitwaterflow as gwf
    from bert_e import exceptions as ex
    job = types.SimpleNamespace(
        pull_request=types.SimpleNamespace(status='OPEN', src_branch=src, dst_branch=dst),
        git=types.SimpleNamespace(repo=types.SimpleNamespace(
            remote_branch_exists=lambda name, refresh_cache=False: True)),
        active_options=[])
    try:
        gwf.early_checks(job)
        return True
    except ex.NotMyJob:
        return False
    except ex.UnrecognizedBranchPattern:
        return 'unrecognised'


def names_part(rep):
    """rx2z3: the (source, destination) pairs Bert-E handles."""
    from bert_e.workflow.gitwaterflow import branches as B
    from .c18 import factory_order, spec
    q = R.Q()
    order = factory_order()
    S, feat_s, ver_s, vergen, prid, N = spec()
    L = {c.__name__: R.lang(c.pattern) for c in order}
    Limpl = {}
    earlier = R.EMPTY
    for c in order:
        Limpl[c.__name__] = z3.Intersect(L[c.__name__], z3.Complement(earlier))
        earlier = z3.Union(earlier, L[c.__name__])
    prod_impl = z3.Union(*[Limpl[c.__name__] for c in order if c.cascade_producer] + [R.EMPTY])
    cons_impl = z3.Union(*[Limpl[c.__name__] for c in order if c.cascade_consumer] + [R.EMPTY])
    prod_spec = z3.Union(S['FeatureBranch'], S['DevelopmentBranch'], S['StabilizationBranch'])
    cons_spec = z3.Union(S['DevelopmentBranch'], S['StabilizationBranch'], S['HotfixBranch'])
    for name, a, b in (('handled sources', prod_impl, prod_spec),
                       ('handled destinations', cons_impl, cons_spec)):
        ok, w = q.equal(a, b, name)
        rep.transitions += 2
        if not ok:
            exp = name == 'handled sources'
            data = dict(kind='names', src=w if exp else 'bugfix/x',
                        dst='development/4.3' if exp else w,
                        expected=not names_concrete(w if exp else 'bugfix/x',
                                                    'development/4.3' if exp else w))
            rep.cexs.append(Cex('C12', name + ' differ from the statement', data, True,
                                'name %r' % w))
    # concrete differential on solver-generated names of every class
    k = 6 if rep.tier == 'quick' else 30
    srcs, dsts = [], []
    for c in order:
        ms = q.members(Limpl[c.__name__], k)
        srcs += [(m, c.__name__ in ('FeatureBranch', 'DevelopmentBranch', 'StabilizationBranch'))
                 for m in ms]
        dsts += [(m, c.__name__ in ('DevelopmentBranch', 'StabilizationBranch', 'HotfixBranch'))
                 for m in ms]
    rejected = z3.Intersect(z3.Complement(z3.Union(*L.values())), z3.Plus(R.SIGMA))
    for m in q.members(rejected, k):
        srcs.append((m, 'unrecognised'))
    for s, es in srcs:
        got = names_concrete(s, 'development/4.3')
        exp = es if es != 'unrecognised' else 'unrecognised'
        if got != exp and not (exp == 'unrecognised' and got is False):
            rep.cexs.append(Cex('C12', 'source name handled contrary to the statement',
                                dict(kind='names', src=s, dst='development/4.3', expected=exp),
                                True, 'source %r: handled=%r expected=%r' % (s, got, exp)))
            break
        rep.validated += 1
    for d, ed in dsts:
        got = names_concrete('bugfix/x', d)
        if got != ed:
            rep.cexs.append(Cex('C12', 'destination name handled contrary to the statement',
                                dict(kind='names', src='bugfix/x', dst=d, expected=ed), True,
                                'destination %r: handled=%r expected=%r' % (d, got, ed)))
            break
        rep.validated += 1
    rep.add_part('names (rx2z3)', queries=q.n, solver_s=round(q.t, 2))
    rep.queries += q.n


def check(rep):
    rep.stubs += common.install_common_stubs(common.named_render)
    rep.stubs += ['message text -> "[template code]" (deterministic, distinct per message kind)']
    _quiet()
    import bert_e.workflow.gitwaterflow as gwf
    gwf.setup({})         # register the options/commands as BertE.__init__ does
    rep.stubs += ['repository -> raises on any command before clone_git_repo (ls-remote allowed)',
                  'git host -> raises on any write except comments / bot status; approvals and '
                  'build statuses raise if consulted']
    rep.functions_encoded += [
        'gitwaterflow.handle_pull_request/_handle_pull_request (up to clone_git_repo)',
        'gitwaterflow.early_checks/send_greetings/handle_comments/check_dependencies',
        'reactor.Reactor.init_settings/handle_options/handle_commands',
        'commands.after_pull_request, option `wait`', 'pr_utils.notify_user/find_comment/_send_comment',
        'branches.is_cascade_producer/is_cascade_consumer/branch_factory']
    rep.bounds = dict(robot_names=ROBOTS, spellings=SPELL, dependencies='0..2 after_pull_request comments over {open/merged/declined id, '
                                   'unknown id, non-numeric}', pr_status=PR_STATUS)
    rep.outside_claim += ['positions of the hold inside histories other than the ones listed under bounds.histories',
                          'what happens after clone_git_repo (other properties)',
                          'a non-numeric after_pull_request argument is ignored by the option '
                          'handler (not a dependency)']
    results, st = common.explore_parallel(make_harness(), split_depth=5)
    rep.add_stats(st, 'hold evaluation')
    classes = set(r['out'] for _, r in results)
    if not {'NothingToDo', 'AfterPullRequest', 'IncorrectPullRequestNumber', 'proceeds'} <= classes:
        rep.error('vacuity: outcome classes %s' % sorted(classes))
    seen = set()
    for _, r in results:
        if r['bad'] is not None and r['out'] not in seen:
            seen.add(r['out'])
            data = dict(vals=r['bad'])
            rep.cexs.append(Cex('C12', 'hold handling: outcome %s contradicts the statement' % r['out'].split(':')[0],
                                data, replay(data), 'outcome %s comments=%s on %r' % (r['out'], r['kinds'], r['bad'])))
    wits = [r['wit'] for _, r in results if r['wit']]
    for i in common.sample_indices(len(wits), 120, rep.seed):
        out, ok, cr = concrete(wits[i])
        if out not in ok or not cr:
            rep.error('witness replay mismatch %r -> %s' % (wits[i], out))
            break
        rep.validated += 1
    if wits:
        rep.sample(dict(inputs=wits[0], outcome=concrete(wits[0])[0]))
    tw, st2 = common.explore_parallel(make_harness(twin=True), split_depth=5)
    if not any(r['bad'] is not None for _, r in tw):
        rep.error('reachability twin not refuted')
    names_part(rep)
    # holds added and lifted along histories of complete jobs on the symbolic repository
    from . import histcheck
    histcheck.check(rep, 'C12')

