"""Property checks over bounded histories (see history.py).

A *scenario* is a plain Python function scen(s, choose) -> [violated labels]
written once against the session API; it runs on SymSession (every branch on a
symbolic value forks, the solver decides feasibility) and, with the recorded
choices, on RealSession (/usr/bin/git) to replay counterexamples and witnesses.
"""
import hashlib
import os
import z3

from symx.core import HarnessError, model_value
from symx.report import Cex
from . import common, gitflow as GF, history as H
from .gitflow import PR

F = ['development/4.3', 'development/5.1']
A = ['development/4.3', 'development/5.1', 'development/10.0']
E = ['stabilization/4.3.18', 'development/4.3', 'development/5.1']
D = ['development/10.0']
P1 = (1, 'feature/a', 'development/4.3')
P2 = (2, 'bugfix/b', 'development/5.1')
P2b = (2, 'bugfix/b', 'development/4.3')
PS = (1, 'bugfix/s', 'stabilization/4.3.18')
P3 = (2, 'bugfix/b', 'development/10.0')


# -- monitors evaluated after every observable remote update of every job -------------------
def sym_monitors(shape, prs, which, created=()):
    """`created`: destination branches a create-branch job of the history publishes (theirs to create)."""
    mons = []
    if 'C01' in which:
        mons.append(GF.mon_inclusion(shape))
    if 'C08' in which:
        mons.append(GF.mon_fast_forward(shape))

        mons.append(lambda repo, op: [] if (op['ref'] in created and op['kind'] == 'update' and op.get('old') is None)
                    else GF.mon_foreign(shape)(repo, op))

        def mon_resurrect(repo, op):
            if op['kind'] == 'update' and op['ref'] in shape and op['old'] is None:
                return [('C08 destination %s (re)created by a job that is not the create-branch job' % op['ref'],
                         z3.BoolVal(False))]
            return []
        mons.append(mon_resurrect)
    if 'C03' in which:
        def mon(repo, op):
            if op['kind'] != 'update' or op['ref'] not in shape or op['old'] is None:
                return []
            return [('C03 %s advanced to a commit without SUCCESSFUL build' % op['ref'],
                     z3.Or(op['new'] == op['old'], repo.status_term(op['new']) == H.OK))]
        mons.append(mon)
    if 'C02' in which:
        def mon2(repo, op):
            if op['kind'] != 'update' or op['ref'] not in shape:
                return []
            out = []
            for p in prs:
                ts = [t for t in GF.targets(shape, p.dst) if t in repo.remote]
                if op['ref'] not in ts or len(ts) < 2 or p.src not in repo.remote:
                    continue
                src = repo.cl(repo.remote[p.src])
                ins = [repo.subset_t(src, repo.cl(repo.remote[t])) for t in ts]
                post = z3.Or(z3.And(*ins), z3.Not(z3.Or(*ins)))
                # inductive form: only if it held when the job started
                pre0 = getattr(repo, 'job_pre_remote', None) or repo.pre_remote
                if p.src in pre0 and all(t in pre0 for t in ts):
                    ins0 = [repo.subset_t(repo.cl(pre0[p.src]), repo.cl(pre0[t])) for t in ts]
                    post = z3.Implies(z3.Or(z3.And(*ins0), z3.Not(z3.Or(*ins0))), post)
                out.append(('C02 PR %d on some but not all of its targets' % p.id, post))
            return out
        mons.append(mon2)
    return mons


def real_monitor_labels(s, shape, prs, which, pre_heads):
    """The same conditions evaluated on the real remote (end of a job)."""
    w = s.world
    heads = w.heads()
    bad = []
    if 'C01' in which:
        for a, b in GF.inclusion_pairs(shape):
            if a in heads and b in heads and not w.is_ancestor(heads[a], heads[b]):
                bad.append('C01 inclusion %s in %s' % (a, b))
    for d in shape:
        if d not in heads:
            if 'C08' in which and d in pre_heads:
                bad.append('C08 destination %s deleted' % d)
            continue
        if 'C08' in which and d not in pre_heads:
            bad.append('C08 destination %s (re)created by a job that is not the create-branch job' % d)
        if heads[d] != pre_heads.get(d):
            if 'C08' in which and d in pre_heads and not w.is_ancestor(pre_heads[d], heads[d]):
                bad.append('C08 fast-forward of %s' % d)
            if 'C03' in which and s.build_status(heads[d], GF.BUILD_KEY) != 'SUCCESSFUL':
                bad.append('C03 %s advanced to a commit without SUCCESSFUL build' % d)
    if 'C08' in which:
        for r, sha in pre_heads.items():
            if r in shape or GF.is_robot_ref(r):
                continue
            if r not in heads:
                bad.append('C08 foreign ref %s deleted' % r)
            elif heads[r] != sha:
                bad.append('C08 foreign ref %s updated' % r)
    if 'C06' in which and prs:
        p = prs[0]
        ts = GF.targets(shape, p.dst)
        asked = [sha for (sha, key) in s.host.asked if key == GF.BUILD_KEY]
        moved = [t for t in ts if t in heads and heads[t] != pre_heads.get(t)]
        queued = [r for r in heads if r.startswith('q/w/%d/' % p.id) and heads[r] != pre_heads.get(r)]
        if (moved or queued) and len(asked) >= len(ts):
            gate = asked[-len(ts):]
            for k, t in enumerate(ts):
                what = 'the source tip' if k == 0 else 'an integration tip'
                green = s.build_status(gate[k], GF.BUILD_KEY) == 'SUCCESSFUL'
                if t in moved and not green:
                    bad.append('C06 merged although the build of %s was not SUCCESSFUL' % what)
                if t in moved and k >= 1 and t in pre_heads and not w.is_ancestor(pre_heads[t], gate[k]):
                    bad.append('C06 the integration commit that was built does not contain its '
                               'destination (stale build)')
                if queued and not green:
                    bad.append('C06 queued although the build of %s is not SUCCESSFUL' % what)
        elif moved and not queued and len(asked) < len(ts) and any(
                j['event'].startswith('eval_pr') for j in s.all_jobs[-1:]):
            bad.append('C06 destination moved without reading the build statuses')
    if 'C02' in which:
        for p in prs:
            ts = [t for t in GF.targets(shape, p.dst) if t in heads]
            if len(ts) < 2 or p.src not in heads:
                continue
            ins = [w.is_ancestor(heads[p.src], heads[t]) for t in ts]
            if all(t in pre_heads for t in ts) and p.src in pre_heads:
                ins0 = [w.is_ancestor(pre_heads[p.src], pre_heads[t]) for t in ts]
                if any(ins0) and not all(ins0):
                    continue          # inductive form: it did not hold when the job started
            if any(ins) and not all(ins) and any(heads[t] != pre_heads.get(t) for t in ts):
                bad.append('C02 PR %d on some but not all of its targets' % p.id)
    return bad


# -- scenarios ------------------------------------------------------------------------------
def _norm_effects(effects):
    """Host writes without the commit ids: two runs that re-create a merge commit produce
    different shas (timestamps), which the failure message links."""
    out = []
    for e in effects:
        if e[0] == 'comment':
            out.append((e[0], e[1], e[2].split(' commit=')[0]))
        else:
            out.append(tuple(e))
    return out


def same_job(a, b):
    return a['out'] == b['out'] and a['ops'] == b['ops'] and _norm_effects(a['effects']) == _norm_effects(b['effects'])


def robot_twice_in_a_row(s):
    for p in s.host.prs.values():
        cs = p.comments
        for i in range(1, len(cs)):
            if cs[i].author == H.ROBOT and cs[i - 1].author == H.ROBOT and cs[i].text == cs[i - 1].text:
                return 'C10 the same message twice in a row on #%d' % p.id
    return None


def scen_converge(prefix, event):
    """C10: after `prefix`, evaluate `event` five times with nothing changing
    outside.  The statement allows the evaluation and "at most two more" to act:
    the fourth and fifth must be quiet.  No message twice in a row; a fresh
    server instance behaves as the long-lived one."""
    def scen(s, choose):
        bad = []
        s.play(prefix)
        if event[0] == 'eval_commit' and not s.has_ref(event[1]):
            return bad
        snap = s.snapshot()
        ncomments = {i: len(p.comments) for i, p in s.host.prs.items()}
        recs = []
        for k in range(5):
            recs += s.play([event])
        for k in (3, 4):
            if k < len(recs) and not H.quiet(recs[k]):
                bad.append('C10 evaluation %d of an unchanged state still acts (%s)' % (k + 1, event[0]))
                break
        for p in s.host.prs.values():
            cs = p.comments
            for i in range(max(1, ncomments.get(p.id, 0)), len(cs)):
                if cs[i].author == H.ROBOT and cs[i - 1].author == H.ROBOT and cs[i].text == cs[i - 1].text:
                    bad.append('C10 the same message twice in a row')
        # the same evaluation on a fresh server instance
        s.restore(snap, new_server=True)
        fresh = s.play([event])
        if fresh and recs and not same_job(fresh[0], recs[0]):
            bad.append('C10 a fresh server instance behaves differently from the long-lived one')
        return bad
    return scen


def scen_independent(before_a, before_b, event):
    """C10: the outcome of an evaluation depends only on the current state of the
    repository and of the pull request, not on which jobs the same server processed
    before: two different job histories that leave that state equal (jobs on *another*
    pull request, which end before the clone) must be followed by the same evaluation."""
    def scen(s, choose):
        bad = []
        snap = s.snapshot()
        s.play(before_a)
        a = s.play([event])
        s.restore(snap, new_server=False)
        s.play(before_b)
        b = s.play([event])
        if a and b and not same_job(a[0], b[0]):
            bad.append('C10 the evaluation depends on the jobs processed before it')
        return bad
    return scen


def scen_cache_independent(prefix, event):
    """What a job decides depends on the repository as it is now, not on what the machine's
    mirror cache saw earlier: the same event on this machine and on a machine without cache."""
    def scen(s, choose):
        bad = []
        s.play(prefix)
        snap = s.snapshot()
        a = s.play([event])
        s.restore(snap, new_server=True)
        s.play([('new_machine',)])
        b = s.play([event])
        if a and b and not same_job(a[0], b[0]):
            bad.append('the evaluation depends on what the mirror cache held before (%s here, %s on a fresh machine)'
                       % (a[0]['out'], b[0]['out']))
        return bad
    return scen


def scen_after_fault(prefix, fault, event):
    """C13: an accepted event is evaluated even when the environment misbehaved between two
    jobs in a way the server tolerates (e.g. the scratch directory of the previous job was
    removed by a tmp cleaner): same evaluation as without the fault."""
    def scen(s, choose):
        bad = []
        s.play(prefix)
        snap = s.snapshot()
        a = s.play([event])
        s.restore(snap, new_server=False)
        s.play(fault)
        b = s.play([event])
        if a and b and not same_job(a[0], b[0]):
            bad.append('C13 an accepted event is not evaluated after a tolerated fault (%s instead of %s)'
                       % (b[0]['out'], a[0]['out']))
        return bad
    return scen


def redeliver(s, event, shape_prs, choose=None):
    """Re-deliver `event` to a fresh Bert-E, with a documented queue reset when it reports the
    queues out of order: either the rebuild job (POST /api/gwf/queues: removes the queues and
    re-submits the pull requests that were queued) or the last-resort delete job followed by a
    manual re-evaluation of every pull request - solver-chosen when a chooser is given."""
    s.new_server()
    rec = s.play([event])[0]
    if rec['out'] in ('QueueOutOfOrder', 'IncoherentQueues'):
        kind = ('delete_queues', 'rebuild_queues')[choose('queue_reset', 2)] if choose else 'delete_queues'
        r = s.play([(kind,)])[0]
        again = [p.id for p in shape_prs] if kind == 'delete_queues' else list(r.get('put') or [])
        for pid in again:
            s.play([('eval_pr', pid)])
        if event[0] != 'eval_pr' or event[1] not in again:
            rec = s.play([event])[0]
    return rec


def scen_recover(prefix, main, with_refusal=False):
    """C02: run `main` uninterrupted; then again from the same state with a
    crash at a (symbolically chosen) boundary of one job, re-deliver that
    event and finish the script: every destination ends with the same content."""
    def scen(s, choose):
        bad = []
        s.play(prefix)
        snap = s.snapshot()
        job_events = [e for e in main if e[0].startswith(('eval_', 'delete_'))]
        recsA = s.play(main)
        if len(job_events) != len(recsA):
            raise HarnessError('script with conditional events in scen_recover')
        s.play(job_events)
        contA = {d: s.content_of(d) for d in s.shape}
        points = [(j, k) for j, r in enumerate(recsA) for k in range(r['nbound'])]
        if not points:
            return bad
        c = choose('crash_point', len(points))
        j, k = points[c]
        s.restore(snap, new_server=True)
        for i, ev in enumerate(job_events):
            if i == j:
                rec = s.play([ev + (k,)])[0]
                if rec['out'] != 'CRASHED':
                    raise HarnessError('crash point %r not reached (%s)' % ((j, k), rec['out']))
                redeliver(s, ev, s.prs, choose)
            else:
                s.play([ev])
        # every event is delivered once more at the end of both runs (webhooks fire
        # again on every push; the comparison is between quiescent states)
        s.play(job_events)
        for d in s.shape:
            if s.differs(contA[d], s.content_of(d)):
                bad.append('C02 after a crash and re-delivery %s does not end with the same '
                           'content as the uninterrupted run' % d)
        return bad
    return scen


def scen_told(events):
    """C06: whenever an evaluation ends in BuildFailed the author is told about *that* failure:
    the robot's message about the failing commit is on the pull request (posted by this job, or
    already the robot's latest message)."""
    def scen(s, choose):
        bad = []
        for ev in events:
            recs = s.play([ev])
            for r in recs:
                if r['out'] != 'BuildFailed' or not r['event'].startswith('eval_pr'):
                    continue
                pid = int(r['event'].split()[1])
                posted = [e[2] for e in r['effects'] if e[0] == 'comment' and e[1] == pid and 'build_failed.md' in e[2]]
                robot_msgs = [c.text for c in s.host.prs[pid].comments if c.author == H.ROBOT]
                last = robot_msgs[-1] if robot_msgs else ''
                if not posted and 'build_failed.md' not in last:
                    bad.append('C06 a failed build was not reported to the author')
                elif not posted:
                    # deduplicated: the latest message must be about the very commit that failed now
                    failing = [str(sha) for (sha, key) in s.host.asked if key == GF.BUILD_KEY]
                    if not any(('commit=http://commit/%s' % f) in last for f in failing):
                        bad.append('C06 a failed build on a new commit was not reported to the author')
        return bad
    return scen


GATE_OUTS = ('MissingJiraId', 'JiraIssueNotFound', 'IncorrectJiraProject', 'IssueTypeNotSupported',
             'IncorrectFixVersion')
# states of the ticket: (issue type, fix versions) or None (no such issue); what the gate must answer;
# the details its message must carry
TICKETS = {
    'fits': (('Bug', ['4.3.0', '5.1.0']), None, None),
    'fits+suffixed': (('Bug', ['4.3.0', '5.1.0', '5.1.0_hf1']), None, None),
    'one version missing': (('Bug', ['4.3.0']), 'IncorrectFixVersion', 'versions=4.3.0 expected=4.3.0,5.1.0'),
    'other version missing': (('Bug', ['5.1.0']), 'IncorrectFixVersion', 'versions=5.1.0 expected=4.3.0,5.1.0'),
    'no version': (('Bug', []), 'IncorrectFixVersion', 'versions= expected=4.3.0,5.1.0'),
    'wrong type': (('Epic', ['4.3.0', '5.1.0']), 'IssueTypeNotSupported', 'type=Epic'),
    'absent': (None, 'JiraIssueNotFound', 'issue=PROJ-7'),
}


def scen_ticket(nsteps, pid, key, states, passed):
    """C11 along a history: the ticket is edited between evaluations (solver-chosen state each
    time).  Every evaluation must end the way the ticket's current state commands (`passed`
    when it fits); a refusal must leave the repository alone and be reported by its own
    message - the robot's latest word on the pull request is the message of *this* refusal,
    with the current details."""
    def scen(s, choose):
        bad = []
        s.play([('approvals', pid, [])])          # nobody approved: a pull request that passes the gate stays open
        for i in range(nsteps):
            st = states[choose('ticket%d' % i, len(states))]
            ticket, want, details = TICKETS[st]
            s.play([('jira_set', key) + (ticket or (None,))])
            r = s.play([('eval_pr', pid)])[0]
            if r['out'] != (want or passed):
                bad.append('C11 ticket gate: evaluation ended %s although the ticket %s' % (
                    r['out'], 'fits' if want is None else 'does not fit (%s)' % want))
                continue
            if want is None:
                continue
            if r['ops']:
                bad.append('C11 a refusal of the ticket gate touched the repository')
            msgs = [c.text for c in s.host.prs[pid].comments if c.author == H.ROBOT]
            last = msgs[-1] if msgs else ''
            tmpl = {'IncorrectFixVersion': 'incorrect_fix_version.md', 'IssueTypeNotSupported':
                    'issue_type_not_supported.md', 'JiraIssueNotFound': 'jira_issue_not_found.md'}[want]
            if tmpl not in last or details not in last:
                bad.append('C11 a refusal of the ticket gate is not reported by its own message')
        return bad
    return scen


def with_failed_push(inner, maxk=8):
    """One push command of the run (solver-chosen, possibly none) fails transiently; the real
    retry handler runs (its sleep is a no-op): a retried push must be the same push."""
    def scen(s, choose):
        import bert_e.workflow.git_utils as GU
        k = choose('failed_push', maxk + 1)
        s.set_fail_push(k or None)
        saved = GU.RetryHandler.wait
        GU.RetryHandler.wait = GF.ORIG_WAIT
        try:
            return inner(s, choose)
        finally:
            GU.RetryHandler.wait = saved
    return scen


def with_refused_pushes(inner, first=1):
    """Every push command of the run fails (the git host is down or refuses everything), for as
    long as the scenario lasts; the retry budget is exhausted at the first failure."""
    def scen(s, choose):
        s.set_refuse_pushes(first)
        return inner(s, choose)
    return scen


def scen_expect(events, expected):
    """Play the events; the job outcomes must be the expected ones (deterministic histories:
    green builds, no conflicts)."""
    def scen(s, choose):
        recs = s.play(events)
        got = [r['out'] for r in recs]
        if got != list(expected):
            return ['the jobs ended %s instead of %s' % (got, list(expected))]
        return []
    return scen


def scen_third_party_survives(events, ref):
    """Play the events (one of them makes a third party create `ref` while a job runs); the
    branch must still be there, where its owner put it, at the end."""
    def scen(s, choose):
        s.play(events)
        if getattr(s, 'pending_during', None) is not None:
            raise HarnessError('the third-party action was never reached (no such push in the job)')
        if ref not in s.ref_names():
            return ['C08 foreign ref %s deleted' % ref]
        return []
    return scen


def scen_play(events):
    """Just play the events: the monitors installed on the repository decide."""
    def scen(s, choose):
        s.play(events)
        return []
    return scen


def scen_orders(events, tail=()):
    """C19: deliver `events` (a list of events, in the given order and
    multiplicity); after every job each pull request has at most one
    integration branch and at most one open integration pull request per
    target beyond the first, named after it."""
    def scen(s, choose):
        bad = []
        for ev in list(events) + list(tail):
            s.play([ev])
            bad += one_to_one(s)
            if bad:
                break
        return bad
    return scen


def one_to_one(s):
    bad = []
    names = s.ref_names()
    for p in s.prs:
        ts = GF.targets(s.shape, p.dst)
        want = set(GF.w_name(p, t) for t in ts[1:])
        have = set(n for n in names if n.startswith('w/') and n.endswith('/' + p.src))
        if not have <= want:
            bad.append('C19 unexpected integration branch for #%d' % p.id)
        if have and all(s.is_merged(p.src, t) for t in ts):
            bad.append('C19 #%d is merged but integration branches are still on the remote' % p.id)
        for t in ts[1:]:
            kids = [c for c in s.host.prs.values()
                    if c.author == H.ROBOT and not c.declined and c.src_branch == GF.w_name(p, t)
                    and c.dst_branch == t and c.status == 'OPEN']
            if len(kids) > 1:
                bad.append('C19 two open integration pull requests for one target of #%d' % p.id)
            for c in kids:
                if c.title != 'INTEGRATION [PR#%d > %s] %s' % (p.id, t, s.host.prs[p.id].title):
                    bad.append('C19 integration pull request not titled after its parent')
        foreign_kids = [c for c in s.host.prs.values()
                        if c.author == H.ROBOT and c.src_branch.endswith('/' + p.src)
                        and c.src_branch not in want]
        if foreign_kids:
            bad.append('C19 integration pull request on an unexpected branch for #%d' % p.id)
    return bad


def scen_same_as_parent(prefix, event, parent_event):
    """C19: an event on an integration pull request / integration or source
    commit is handled as the event on the parent pull request."""
    def scen(s, choose):
        bad = []
        s.play(prefix)
        ev = event(s) if callable(event) else event
        if ev is None:
            return bad
        if ev[0] == 'eval_commit' and not s.has_ref(ev[1]):
            return bad
        snap = s.snapshot()
        a = s.play([ev])
        s.restore(snap, new_server=True)
        b = s.play([parent_event])
        if a and b and not same_job(a[0], b[0]):
            bad.append('C19 %s is not handled as %s' % (ev[0], parent_event[0]))
        return bad
    return scen


def _robot_texts(rec):
    # (without the list of options in force: a dependency comment that is satisfied is still there)
    return [e[2].split(' options=')[0].split(' commit=')[0].strip() for e in rec['effects'] if e[0] == 'comment' and 'InitMessage' not in e[2]
            and 'init.md' not in e[2]]


def scen_hold(prefix, hold, lift, event, held_outs):
    """C12: a hold (wait / unmerged dependency) keeps the pull request from getting
    integration branches, queue entries or merges whatever its approvals and
    builds; once it is lifted the evaluation proceeds as if it had never been
    there (compared with the run without the hold from the same state)."""
    def scen(s, choose):
        bad = []
        s.play(prefix)
        snap = s.snapshot()
        a = s.play(lift + [event])
        a = a[-1] if a else None
        s.restore(snap, new_server=True)
        s.play(hold)
        for k in range(2):
            h = s.play([event])
            if not h:
                return bad
            if h[0]['ops']:
                bad.append('C12 a held pull request got branches / queue entries / merges')
            if h[0]['out'] not in held_outs:
                bad.append('C12 a held pull request was evaluated (%s)' % h[0]['out'])
            if any(e[0] != 'comment' for e in h[0]['effects']):
                bad.append('C12 a held pull request got integration pull requests / was declined')
        b = s.play(lift + [event])
        b = b[-1] if b else None
        if a and b and (a['out'] != b['out'] or a['ops'] != b['ops'] or _robot_texts(a) != _robot_texts(b)):
            bad.append('C12 after the hold is lifted the evaluation differs from the one without the hold')
        return bad
    return scen


def scen_finished(prefix, finish, event, nevals=2):
    """C12: a pull request that was closed never gets integration branches, queue entries or
    merges afterwards, whatever its approvals and builds: the only ref operations of its later
    evaluations are deletions (the clean-up of its integration branches), no integration pull
    request is opened, and the evaluation ends as declined / nothing to do."""
    def scen(s, choose):
        bad = []
        s.play(prefix)
        s.play(finish)
        for k in range(nevals):
            h = s.play([event])
            if not h:
                return bad
            if any(kind != 'delete' for kind, ref in h[0]['ops']):
                bad.append('C12 a closed pull request got branches / queue entries / merges')
            if any(e[0] not in ('comment', 'decline') for e in h[0]['effects']):
                bad.append('C12 a closed pull request got integration pull requests')
            if h[0]['out'] not in ('PullRequestDeclined', 'NothingToDo'):
                bad.append('C12 a closed pull request was evaluated (%s)' % h[0]['out'])
        return bad
    return scen


def scen_reset(prefix, change, reset_comment, force_comment, manual):
    """C15 along a history: `reset` refuses (deleting nothing) iff an integration branch holds
    manual work; `force_reset` discards it; either command touches only the integration
    branches of its own pull request; the next evaluation rebuilds them."""
    def scen(s, choose):
        bad = []
        s.play(prefix)
        p = s.prs[0]
        ts = GF.targets(s.shape, p.dst)
        mine = set(GF.w_name(p, t) for t in ts[1:])
        if not (mine & set(s.ref_names())):
            return bad                      # no integration branch was created on this path
        # a commit pushed on top of an integration branch is manual work unless that tip is itself a
        # commit of the source branch or of the destination (then it reads as an earlier version of
        # the source branch - the statement exempts those)
        on_top_of_robot_commit = all(
            not s.is_merged(w, p.src) and not s.is_merged(w, t)
            for w, t in ((GF.w_name(p, t), t) for t in ts[1:]) if w in s.ref_names())
        s.play(change)
        snap = s.snapshot()
        s.play([reset_comment])
        r = s.play([('eval_pr', p.id)])[0]
        expect_refusal = manual and on_top_of_robot_commit
        if expect_refusal and r['out'] != 'LossyResetWarning':
            bad.append('C15 reset did not refuse although manual work is on an integration branch (%s)' % r['out'])
        if not manual and r['out'] != 'ResetComplete':
            bad.append('C15 reset refused although no manual work is on the integration branches (%s)' % r['out'])
        if r['out'] == 'LossyResetWarning' and (r['ops'] or any(e[0] == 'decline' for e in r['effects'])):
            bad.append('C15 a refused reset touched the repository')

        def only_mine(rec, what):
            if any(ref not in mine for k, ref in rec['ops']):
                bad.append('C15 %s touched a branch that is not an integration branch of this pull request' % what)
        only_mine(r, 'reset')
        if r['out'] == 'ResetComplete' and (mine & set(s.ref_names())):
            bad.append('C15 reset completed but integration branches are still there')
        # force_reset from the same state
        s.restore(snap, new_server=True)
        s.play([force_comment])
        f = s.play([('eval_pr', p.id)])[0]
        if f['out'] != 'ResetComplete':
            bad.append('C15 force_reset did not complete (%s)' % f['out'])
        only_mine(f, 'force_reset')
        if mine & set(s.ref_names()):
            bad.append('C15 force_reset completed but integration branches are still there')
        # the next evaluation rebuilds them
        n = s.play([('eval_pr', p.id)])[0]
        if not (mine <= set(s.ref_names())) and n['out'] not in ('Conflict', 'NothingToDo', 'BranchHistoryMismatch'):
            bad.append('C15 the evaluation after a reset did not rebuild the integration branches (%s)' % n['out'])
        return bad
    return scen


def scen_reset_twice(prefix, rounds=2):
    """C15 along a history without manual work: `reset` / `force_reset` (solver-chosen each
    time) is asked several times on one pull request, with ordinary evaluations in between.
    Each command deletes exactly the integration branches of its pull request, and the
    evaluation that follows rebuilds them (it is not the command being run again)."""
    def scen(s, choose):
        bad = []
        s.play(prefix)
        p = s.prs[0]
        mine = set(GF.w_name(p, t) for t in GF.targets(s.shape, p.dst)[1:])
        if not (mine & set(s.ref_names())):
            return bad
        for k in range(rounds):
            cmd = ('reset', 'force_reset')[choose('command%d' % k, 2)]
            s.play([('comment', p.id, 'contributor', '@robot ' + cmd)])
            r = s.play([('eval_pr', p.id)])[0]
            if r['out'] != 'ResetComplete':
                bad.append('C15 %s did not complete although no manual work is on the integration branches (%s)'
                           % (cmd, r['out']))
                return bad
            if any(kind != 'delete' or ref not in mine for kind, ref in r['ops']):
                bad.append('C15 %s touched a branch that is not an integration branch of this pull request' % cmd)
            if mine & set(s.ref_names()):
                bad.append('C15 %s completed but integration branches are still there' % cmd)
            for j in range(2):
                n = s.play([('eval_pr', p.id)])[0]
                if n['out'] == 'ResetComplete' or not (mine <= set(s.ref_names())):
                    bad.append('C15 the evaluation after a reset did not rebuild the integration branches (%s)' % n['out'])
                    return bad
        return bad
    return scen


def scen_admin(prefix, event, verdict):
    """C20: an admin job run in a state reached by real jobs; verdict(s, rec, before) -> labels."""
    def scen(s, choose):
        s.play(prefix)
        before = dict(refs=s.ref_names(), tags=s.tag_names())
        rec = s.play([event])[0]
        return verdict(s, rec, before)
    return scen


def _refuses_untouched(what):
    def verdict(s, rec, before):
        bad = []
        if rec['out'] not in ('JobFailure', 'NothingToDo'):
            bad.append('C20 %s was not refused (%s)' % (what, rec['out']))
        if rec['ops']:
            bad.append('C20 a refusing job touched the remote')
        return bad
    return verdict


def _deletes_with_tag(branch):
    def verdict(s, rec, before):
        bad = []
        ver = branch.split('/', 1)[1]
        if rec['out'] != 'JobSuccess':
            bad.append('C20 delete-branch refused although nothing is queued on the branch (%s)' % rec['out'])
            if rec['ops']:
                bad.append('C20 a refusing job touched the remote')
            return bad
        if branch in s.ref_names():
            bad.append('C20 delete-branch succeeded but the branch is still there')
        if ver not in s.tag_names():
            bad.append('C20 branch deleted without an archive tag')
        other = [o for o in rec['ops'] if o[1] not in (branch, ver, 'q/' + ver)]
        if other:
            bad.append('C20 delete-branch changed other refs')
        return bad
    return verdict


def _creates(branch, allowed):
    def verdict(s, rec, before):
        bad = []
        created = branch in s.ref_names() and branch not in before['refs']
        if allowed and not created:
            bad.append('C20 create-branch refused a branch that keeps the repository well-formed (%s)' % rec['out'])
        if not allowed and created:
            bad.append('C20 create-branch published a branch while queued pull requests need new '
                       'intermediate integration branches')
        if not created and rec['ops']:
            bad.append('C20 a refusing job touched the remote')
        if created and [o for o in rec['ops'] if o[1] != branch and not o[1].startswith('q/')]:
            bad.append('C20 create-branch changed other refs')
        return bad
    return verdict


def _rebuild(expected_ids):
    def verdict(s, rec, before):
        bad = []
        if [o for o in rec['ops'] if not o[1].startswith('q/')]:
            bad.append('C20 rebuild-queues touched a branch outside q/')
        if [r for r in s.ref_names() if r.startswith('q/')]:
            bad.append('C20 rebuild-queues left queue branches behind')
        want = expected_ids(s, before)
        if rec.get('put') != want:
            bad.append('C20 rebuild-queues re-submitted %s instead of %s' % (rec.get('put'), want))
        return bad
    return verdict


def _queued_ids(s, before):
    """Pull requests that had a q/w/<id>/ branch, in queue order (entry order = id order here:
    the scripts queue them in increasing id)."""
    ids = []
    for r in before['refs']:
        if r.startswith('q/w/'):
            i = int(r.split('/')[2])
            if i not in ids:
                ids.append(i)
    return sorted(ids)


# -- running -----------------------------------------------------------------------------------
class SymChooser:
    def __init__(self, ctx):
        self.ctx = ctx
        self.log = []

    def __call__(self, name, n):
        v = self.ctx.choose(name, n)
        self.log.append(v)
        return v


class ReplayChooser:
    def __init__(self, log):
        self.log = list(log)

    def __call__(self, name, n):
        if not self.log:
            raise HarnessError('replay: no recorded choice for %s' % name)
        return self.log.pop(0)


def sym_differs(self, a, b):
    if a is None or b is None:
        return (a is None) != (b is None)
    return self.ctx.decide(a != b)


def real_differs(self, a, b):
    return a != b


H.SymSession.differs = sym_differs
H.RealSession.differs = real_differs
H.SymSession.ref_names = lambda self: sorted(self.repo.remote)
H.RealSession.ref_names = lambda self: sorted(self.world.heads())
H.SymSession.tag_names = lambda self: sorted(self.repo.remote_tags)
H.RealSession.tag_names = lambda self: sorted(self.world.tag_refs())


def make_harness(cfg):
    """cfg: dict(shape, prs, mode, no_octopus, scen=<callable>, which=<monitor props>, settings)."""
    def h(ctx):
        prs = [PR(*p) for p in cfg['prs']]
        mons = sym_monitors(cfg['shape'], prs, cfg.get('which', ()), cfg.get('created', ()))
        s = H.SymSession(ctx, cfg['shape'], prs, cfg['mode'], no_octopus=cfg.get('no_octopus', True),
                         settings=cfg.get('settings'), monitors=mons, with_w=cfg.get('with_w', False),
                         extra_refs=cfg.get('extra_refs', ()), nfresh=cfg.get('nfresh', 24),
                         green=cfg.get('green', False), no_conflicts=cfg.get('no_conflicts', False),
                         log_cut=cfg.get('log_cut', True), fresh_prs=cfg.get('fresh_prs', True),
                         tags=cfg.get('tags', ()), no_qrefs=cfg.get('no_qrefs', False))
        if 'C06' in cfg.get('which', ()):
            s.repo.monitors.append(GF.mon_handler_builds(cfg['shape'], prs[0], z3.BoolVal(False), s.host))
        choose = SymChooser(ctx)
        labels = cfg['scen'](s, choose)
        labels = list(dict.fromkeys(labels))
        vio = []
        repo = s.repo
        if labels:
            r, m = ctx.sat_model()
            if r != 'sat':
                raise HarnessError('path condition unsat at the end of a path')
            world = s.world(m)
            for lab in labels:
                vio.append(dict(label=lab, world=world, choices=list(choose.log),
                                conflicts=repo.conflicts_taken, differs=repo.differs_taken,
                                pushed=list(s.pushed_atoms)))
        for v in repo.violations:
            w = s.world(v.model)
            vio.append(dict(label=v.label, world=w, choices=list(choose.log),
                            conflicts=v.conflicts, differs=v.differs, pushed=list(s.pushed_atoms),
                            monitor=True))
        outs = tuple(j['out'] for j in s.jobs)
        wit = None
        key = hashlib.sha1(repr(ctx.trace).encode()).digest()[0]
        if not vio and repo.differs_taken == 0 and \
                key % cfg.get('sample_mod', 16) == cfg.get('seed', 0) % cfg.get('sample_mod', 16):
            r, m = ctx.sat_model()
            if r == 'sat':
                wit = dict(world=s.world(m), choices=list(choose.log), pushed=list(s.pushed_atoms),
                           jobs=[(j['event'], j['out'], j['net'], [e[:2] for e in j['effects']])
                                 for j in s.all_jobs])
        return dict(outs=outs, vio=vio, wit=wit, njobs=s.njobs_total)
    return h


def run_real(cfg, world, choices, pushed=()):
    """Run cfg's scenario on a real repository; returns (labels, job records)."""
    prs = [PR(*p) for p in cfg['prs']]
    s = H.RealSession(world, cfg['shape'], prs, cfg['mode'], no_octopus=cfg.get('no_octopus', True),
                      settings=cfg.get('settings'), log_cut=cfg.get('log_cut', True))
    s.pushed_plan = list(pushed)
    orig_tp = s.third_party_commit

    def tp(ref, atom=None):
        if atom is None and s.pushed_plan:
            atom = s.pushed_plan.pop(0)
        return orig_tp(ref, atom)
    s.third_party_commit = tp
    orig_tm = s.third_party_merge

    def tm(ref, base_ref, other_ref, atom=None):
        if atom is None and s.pushed_plan:
            atom = s.pushed_plan.pop(0)
        return orig_tm(ref, base_ref, other_ref, atom)
    s.third_party_merge = tm
    labels = []
    which = cfg.get('which', ())
    try:
        if which:
            orig_run = s._run

            def _run(name, fn, crash_at=None):
                pre = s.world.heads()
                s.tp_heads = {}
                rec = orig_run(name, fn, crash_at)
                pre.update(s.tp_heads)          # branches their owners pushed to while the job ran
                labels.extend(real_monitor_labels(s, cfg['shape'], prs, which, pre))
                return rec
            s._run = _run
        labels += cfg['scen'](s, ReplayChooser(choices))
        jobs = [(j['event'], j['out'], j['net'], [e[:2] for e in j['effects']]) for j in s.all_jobs]
    finally:
        s.close()
    return labels, jobs


def hist_render(template, **kw):
    """Message text: template name + message code; the description of an
    integration pull request names its parent as the real template does."""
    if template == 'pull_request_description.md':
        return 'This pull request has been created automatically. It is linked to its parent ' \
               'pull request #%d.' % kw['pr'].id
    # shaped like the real messages: a title line, then the details, then the options in force
    text = '# ' + common.named_render(template, **kw)
    if template == 'build_failed.md':
        # the real message names the failing branch and links the commit and its build
        text += '\n\nbranch=%s commit=%s' % (kw.get('branch'), kw.get('commit_url'))
    if template == 'incorrect_fix_version.md':
        text += '\n\nissue=%s versions=%s expected=%s' % (getattr(kw.get('issue'), 'key', None),
                                                        ','.join(kw.get('issue_versions', [])),
                                                        ','.join(kw.get('expect_versions', [])))
    elif template == 'issue_type_not_supported.md':
        text += '\n\nissue=%s type=%s' % (kw['issue'].key, kw['issue'].fields.issuetype.name)
    elif template in ('jira_issue_not_found.md', 'incorrect_jira_project.md'):
        text += '\n\nissue=%s' % (getattr(kw.get('issue'), 'key', kw.get('issue')),)
    opts = kw.get('active_options')
    if opts:
        # the real templates print the options in force below the message
        text += '\n\n options=' + ','.join(sorted(str(o) for o in opts))
    return text


def prepare():
    common.install_common_stubs(hist_render)
    stubs = GF.silence_all()
    import bert_e.workflow.gitwaterflow as gwf
    gwf.setup({})
    return stubs + [
        'git binary -> symgit (closure model) in history mode: merge conflicts and build results are '
        'functions of the content (closure without conflict-free merge commits) of the commits involved',
        'git host -> in-memory pull requests with real comment lists; a pull request shows MERGED as soon '
        'as its destination contains its source tip; approvals sufficient; Jira off',
        '`git log` -> empty (history-mismatch check and commit listings inside messages cut)']


def run_family(rep, prop, cfgs, part, replay_cap=6, witness_cap=10, split_depth=5):
    """Explore every configuration; report counterexamples (replayed on real
    git) and validate sampled witnesses against real git."""
    for c in cfgs:
        c.setdefault('seed', rep.seed)
    acc = common.explore_configs(cfgs, make_harness, split_depth=split_depth, max_depth=6000)
    broken = dict(common.pop_config_errors())
    for i, msg in broken.items():
        rep.error('history configuration %s inconclusive: %s' % (cfgs[i]['name'], msg[:300]))
    by_sig = {}
    wits = []
    njobs = 0
    outcomes = {}
    for i, c in enumerate(cfgs):
        results, st = acc[i]
        rep.add_stats(st, '%s: %s' % (part, c['name']))
        if i in broken:
            continue
        if not results:
            rep.error('vacuity: no path in history configuration %s' % c['name'])
        for _, r in results:
            njobs += r['njobs']
            for o in r['outs']:
                outcomes[o] = outcomes.get(o, 0) + 1
            for v in r['vio']:
                by_sig.setdefault((v['label'], i), []).append(v)
            if r['wit']:
                wits.append((i, r['wit']))
        want = c.get('expect_outcomes')
        if want:
            seen = set(o for _, r in results for o in r['outs'])
            miss = [w for w in want if w not in seen]
            if miss:
                rep.error('vacuity: history configuration %s never reached %s (saw %s)'
                          % (c['name'], miss, sorted(seen)))
    rep.add_part(part, jobs_executed=njobs)
    rep.extra.setdefault('history_outcomes', {}).update(
        {'%s:%s' % (part, k): v for k, v in sorted(outcomes.items())})
    # witnesses on real git: same job outcomes, same ref updates, same host writes
    sel = [wits[i] for i in common.sample_indices(len(wits), witness_cap, rep.seed)]

    def wit_check(item):
        i, w = item
        labels, jobs = run_real(cfgs[i], w['world'], w['choices'], w['pushed'])
        probs = []
        if labels:
            probs.append('real run reports %s' % labels[:2])
        if [tuple(j[:2]) for j in jobs] != [tuple(j[:2]) for j in w['jobs']]:
            probs.append('job outcomes real=%s model=%s' % ([j[:2] for j in jobs], [j[:2] for j in w['jobs']]))
        elif [sorted(map(tuple, j[2])) for j in jobs] != [sorted(map(tuple, j[2])) for j in w['jobs']]:
            probs.append('ref updates real=%s model=%s' % ([j[2] for j in jobs], [j[2] for j in w['jobs']]))
        elif [list(map(tuple, j[3])) for j in jobs] != [list(map(tuple, j[3])) for j in w['jobs']]:
            probs.append('host writes real=%s model=%s' % ([j[3] for j in jobs], [j[3] for j in w['jobs']]))
        return probs
    for (i, w), probs in zip(sel, common.pmap(wit_check, sel) if sel else []):
        if probs:
            if len(rep.errors) < 5:
                rep.error('history on symgit differs from the same history on /usr/bin/git (%s): %s'
                          % (cfgs[i]['name'], probs[:2]))
        else:
            rep.validated += 1
    if sel:
        i, w = sel[0]
        rep.sample(dict(kind='history witness replayed on real git', config=cfgs[i]['name'],
                        jobs=[j[:2] for j in w['jobs']]))
    # counterexamples
    for (label, i), vs in sorted(by_sig.items(), key=lambda kv: (kv[0][0], kv[0][1])):
        c = cfgs[i]
        vs.sort(key=lambda v: (v['conflicts'] + v['differs'], len(v['choices'])))
        reproduced = None
        for v in vs[:replay_cap]:
            if v['differs']:
                continue
            labels, jobs = run_real(c, v['world'], v['choices'], v['pushed'])
            if label in labels:
                reproduced = v
                break
        v = reproduced or vs[0]
        sig = '%s [history: %s]' % (GF_sig(label), c['signame'])
        data = dict(history=c['key'], label=label, world=v['world'], choices=v['choices'],
                    pushed=v['pushed'])
        rep.cexs.append(Cex(prop, sig, data, reproduced is not None,
                            '%s in history %s (%d symbolic paths)' % (label, c['name'], len(vs))))


def GF_sig(label):
    import re
    label = re.sub(r'(development|stabilization|hotfix)/[0-9.]+', '<dst>', label)
    label = re.sub(r'PR \d+', 'PR <n>', label)
    label = re.sub(r'#\d+', '#<n>', label)
    return label


# -- configuration families ----------------------------------------------------------------------
def _cfg(key, name, shape, prs, mode, scen, **kw):
    c = dict(key=key, name=name, signame=kw.pop('signame', name), shape=shape, prs=prs, mode=mode, scen=scen)
    c.update(kw)
    return c


def family(prop, tier):
    """All history configurations of a property, keyed for replay."""
    out = []
    EV1 = ('eval_pr', 1)
    if prop == 'C11':
        jira = dict(jira_account_url='http://jira', jira_email='robot@x', jira_token='t', jira_keys=['PROJ'],
                    prefixes={'Bug': 'bugfix', 'Story': 'feature'}, disable_version_checks=False,
                    required_peer_approvals=1)
        states = list(TICKETS) if tier == 'thorough' else ['fits', 'one version missing', 'other version missing',
                                                           'wrong type', 'absent']
        for mode in (('noqueue', 'queue') if tier == 'thorough' else ('noqueue',)):
            out.append(_cfg('ticket:%s:F' % mode, 'ticket gate along a history (%s): the ticket is edited before each of '
                            '%d evaluations' % (mode, 3 if tier == 'quick' else 4), F, [(1, 'bugfix/PROJ-7', 'development/4.3')],
                            mode, scen_ticket(3 if tier == 'quick' else 4, 1, 'PROJ-7', states, 'ApprovalRequired'),
                            settings=jira, green=True, no_conflicts=True,
                            expect_outcomes=['IncorrectFixVersion', 'ApprovalRequired', 'JiraIssueNotFound'],
                            signame='ticket gate along a history'))
        return out
    if prop == 'C10':
        for mode in ('noqueue', 'queue', 'skip'):
            out.append(_cfg('conv:%s:F:pr' % mode, 'converge %s 2 targets, PR event' % mode, F, [P1], mode,
                            scen_converge([], EV1)))
        out.append(_cfg('conv:queue:F:queued-then-queues', 'converge queue: queued, then queue evaluations',
                        F, [P1], 'queue', scen_converge([EV1], ('eval_queues',))))
        out.append(_cfg('conv:queue:F:src-push', 'converge queue: evaluated, source pushed, PR event',
                        F, [P1], 'queue', scen_converge([EV1, ('src_push', 1)], EV1)))
        out.append(_cfg('conv:queue:F:commit-src', 'converge queue: commit event on the source tip',
                        F, [P1], 'queue', scen_converge([EV1], ('eval_commit', 'feature/a'))))
        out.append(_cfg('conv:queue:F:commit-w', 'converge queue: commit event on the integration tip',
                        F, [P1], 'queue', scen_converge([EV1], ('eval_commit', 'w/5.1/feature/a'))))
        out.append(_cfg('conv:queue:F:other-pr-held', 'converge queue: another PR held by `wait` evaluated, source '
                        'pushed, commit event on the new source tip', F, [P1, P2b], 'queue',
                        scen_converge([('comment', 2, 'contributor', '@robot wait'), ('eval_pr', 2),
                                       ('src_push', 1)], ('eval_commit', 'feature/a'))))
        HELD = [('comment', 2, 'contributor', '@robot wait')]
        out.append(_cfg('indep:noqueue:F', 'independence: another (held) pull request evaluated before, with different '
                        'admin options in its comments', F, [P1, P2b], 'noqueue',
                        scen_independent(
                            HELD + [('comment', 2, 'admin', '@robot bypass_peer_approval bypass_leader_approval'),
                                    ('eval_pr', 2)],
                            HELD + [('comment', 2, 'admin', '@robot bypass_jira_check'), ('eval_pr', 2)], EV1)))
        out.append(_indep_author_options('C10'))
        out.append(_cfg('conv:noqueue:F:host-down', 'converge noqueue: every push fails (git host down) for the whole history',
                        F, [P1], 'noqueue', with_refused_pushes(scen_converge([], EV1)), expect_outcomes=['PushFailed'],
                        signame='converge while pushes fail', sample_mod=1))
        out.append(_cfg('conv:queue:F:declined', 'converge queue: evaluated then declined',
                        F, [P1], 'queue', scen_converge([EV1, ('decline', 1)], EV1)))
        if tier == 'thorough':
            out.append(_cfg('conv:noqueue:F:src-push', 'converge noqueue: evaluated, source pushed, PR event',
                            F, [P1], 'noqueue', scen_converge([EV1, ('src_push', 1)], EV1)))
            out.append(_cfg('conv:queue:F:pr:log', 'converge queue 2 targets, PR event, git log modelled (history-mismatch '
                            'check active)', F, [P1], 'queue', scen_converge([], EV1), log_cut=False))
            out.append(_cfg('conv:queue:A:pr', 'converge queue 3 targets, PR event', A, [P1], 'queue',
                            scen_converge([], EV1)))
            out.append(_cfg('conv:queue:F:2prs', 'converge queue: two PRs queued, queue evaluations',
                            F, [P1, P2b], 'queue', scen_converge([EV1, ('eval_pr', 2)], ('eval_queues',))))
            out.append(_cfg('conv:noqueue:E:pr', 'converge noqueue stabilization PR', E, [PS], 'noqueue',
                            scen_converge([], EV1)))
            out.append(_cfg('conv:queue:F:octopus', 'converge queue, octopus merges', F, [P1], 'queue',
                            scen_converge([], EV1), no_octopus=False))
    elif prop == 'C02':
        W = ('C02', 'C01')
        out.append(_cfg('rec:queue:F', 'recover queue 2 targets: evaluate, evaluate queues', F, [P1], 'queue',
                        scen_recover([], [EV1, ('eval_queues',)]), which=W,
                        expect_outcomes=['Queued', 'Merged', 'CRASHED']))
        out.append(_cfg('rec:queue:F:first', 'recover queue, nothing was ever queued (the queue branches are created by this '
                        'job, one push each): evaluate, evaluate queues', F, [P1], 'queue',
                        scen_recover([], [EV1, ('eval_queues',)]), which=W, no_qrefs=True, green=True, no_conflicts=True,
                        expect_outcomes=['Queued', 'Merged', 'CRASHED', 'QueueOutOfOrder'], signame='recover queue (first queueing)',
                        sample_mod=3))
        out.append(_cfg('rec:noqueue:F', 'recover noqueue 2 targets', F, [P1], 'noqueue',
                        scen_recover([], [EV1]), which=W, expect_outcomes=['SuccessMessage', 'CRASHED']))
        out.append(_cfg('rec:skip:F', 'recover skip-queue 2 targets', F, [P1], 'skip',
                        scen_recover([], [EV1, ('eval_queues',)]), which=W, expect_outcomes=['CRASHED']))
        out.append(_cfg('rec:noqueue:F:resolved', 'recover noqueue: conflict, resolved by hand on the integration branch, '
                        'then merged', F, [P1], 'noqueue',
                        scen_recover([EV1, ('resolve', 1, 'development/5.1')], [EV1]), which=W,
                        expect_outcomes=['Conflict', 'SuccessMessage', 'CRASHED']))
        if tier == 'thorough':
            out.append(_cfg('rec:skip:F:resolved', 'recover skip-queue: conflict, resolved by hand, then merged', F, [P1], 'skip',
                            scen_recover([EV1, ('resolve', 1, 'development/5.1')], [EV1, ('eval_queues',)]), which=W,
                            green=True))      # (with symbolic builds this one did not finish in 20 minutes)
            out.append(_cfg('rec:queue:A', 'recover queue 3 targets', A, [P1], 'queue',
                            scen_recover([], [EV1, ('eval_queues',)]), which=W))
            out.append(_cfg('rec:queue:F:2prs', 'recover queue, two PRs', F, [P1, P2b], 'queue',
                            scen_recover([EV1], [('eval_pr', 2), ('eval_queues',)]), which=W,
                            no_conflicts=True))    # (with symbolic conflicts: more than 10 minutes)
            out.append(_cfg('rec:noqueue:F:octopus', 'recover noqueue, octopus', F, [P1], 'noqueue',
                            scen_recover([], [EV1]), which=W, no_octopus=False))
    elif prop == 'C19':
        ipr = dict(always_create_integration_pull_requests=True)
        evs = [EV1, ('eval_commit', 'feature/a'), ('eval_commit', 'w/5.1/feature/a')]
        seqs = [[a, b] for a in evs for b in evs]
        for k, seq in enumerate(seqs):
            if seq[0][0] != 'eval_pr' and tier != 'thorough' and k % 2:
                continue
            out.append(_cfg('ord:queue:F:%d' % k, 'orders queue: %s' % ' ; '.join(' '.join(map(str, e)) for e in seq),
                            F, [P1], 'queue', scen_orders(seq, [('decline', 1), EV1]), settings=ipr,
                            signame='orders queue'))
        out.append(_cfg('ord:noqueue:F:merge', 'orders noqueue: evaluate twice, merged', F, [P1], 'noqueue',
                        scen_orders([EV1, EV1, EV1]), settings=ipr, signame='orders noqueue'))
        out.append(_cfg('ord:queue:A:2prs', 'orders queue, 3 targets: PR on the newest branch queued first, PR on the '
                        'oldest one second, both merged by one queue evaluation', A, [P1, P3], 'queue',
                        scen_orders([('eval_pr', 2), EV1, ('eval_queues',), EV1, ('eval_pr', 2)]),
                        signame='orders queue 2 PRs', expect_outcomes=['Merged'], nfresh=30,
                        green=(tier != 'thorough'), no_conflicts=(tier != 'thorough')))
        out.append(_cfg('ids:queue:F', 'pull request #12 is queued, then #1 (whose id is a prefix of 12) is evaluated: both '
                        'are queued under their own names', F, [P1, (12, 'bugfix/b', 'development/4.3')], 'queue',
                        scen_expect([('eval_pr', 12), EV1, ('eval_queues',)], ['Queued', 'Queued', 'Merged']),
                        green=True, no_conflicts=True, signame='pull request ids'))
        out.append(_cfg('retry:noqueue:F', 'a push fails once and is retried: merge, then decline of another PR', F, [P1, P2b],
                        'noqueue', with_failed_push(scen_orders([EV1, ('decline', 2), ('eval_pr', 2), EV1])),
                        settings=ipr, green=True, no_conflicts=True, signame='retried push',
                        expect_outcomes=['SuccessMessage']))
        out.append(_cfg('par:queue:F:child', 'event on the integration pull request = event on the parent',
                        F, [P1], 'queue', scen_same_as_parent([EV1], _child_event, EV1), settings=ipr))
        out.append(_cfg('par:queue:F:wtip', 'commit event on the integration tip = event on the parent',
                        F, [P1], 'queue', scen_same_as_parent([EV1], ('eval_commit', 'w/5.1/feature/a'), EV1),
                        settings=ipr))
        out.append(_cfg('par:queue:F:srctip', 'commit event on the source tip = event on the parent',
                        F, [P1], 'queue', scen_same_as_parent([EV1], ('eval_commit', 'feature/a'), EV1),
                        settings=ipr))
        out.append(_cfg('par:noqueue:F:child', 'event on the integration pull request = parent (no queue)',
                        F, [P1], 'noqueue', scen_same_as_parent([EV1], _child_event, EV1), settings=ipr))
    elif prop == 'C15':
        # (the histories with manual work need the git log model and are disabled below: too expensive)
        out.append(_cfg('reset2:noqueue:F', 'reset / force_reset asked twice on a pull request without manual work, ordinary '
                        'evaluations in between: each deletes its integration branches only, each is followed by a rebuild',
                        F, [P1], 'noqueue', scen_reset_twice([('approvals', 1, []), EV1]), green=True, no_conflicts=True,
                        settings=dict(required_peer_approvals=1), extra_refs=['bugfix/other', 'w/5.1/bugfix/other'],
                        expect_outcomes=['ResetComplete', 'ApprovalRequired'], signame='repeated reset', sample_mod=2))
        if tier == 'thorough':
            out.append(_cfg('reset3:queue:A', 'the same, three targets, queue mode, three rounds', A, [P1], 'queue',
                            scen_reset_twice([('approvals', 1, []), EV1], rounds=3), green=True, no_conflicts=True,
                            settings=dict(required_peer_approvals=1), extra_refs=['bugfix/other', 'w/5.1/bugfix/other'],
                            expect_outcomes=['ResetComplete', 'ApprovalRequired'], signame='repeated reset'))
    elif prop == 'C15-disabled':      # too expensive with the git log model (see DESIGN 11); not registered
        W51 = 'w/5.1/feature/a'
        RESET = ('comment', 1, 'contributor', '@robot reset')
        FORCE = ('comment', 1, 'contributor', '@robot force_reset')
        # one pull request waiting for approvals (its integration branches exist), builds green, no
        # conflicts; another pull request's source and integration branch are on the remote and must
        # not be touched; `git log` is modelled (the lossy test reads it)
        base = dict(green=True, no_conflicts=True, log_cut=False, settings=dict(required_peer_approvals=1),
                    extra_refs=['bugfix/other', 'w/5.1/bugfix/other'], fresh_prs=True)
        pre = [('approvals', 1, []), EV1]
        out.append(_cfg('reset:noqueue:F:manual', 'reset after a manual commit on the integration branch: refused, '
                        'nothing deleted; force_reset discards; the next evaluation rebuilds', F, [P1], 'noqueue',
                        scen_reset(pre, [('ref_push', W51)], RESET, FORCE, manual=True), **base))
        out.append(_cfg('reset:noqueue:F:clean', 'reset without manual work: integration branches of this PR deleted, '
                        'rebuilt by the next evaluation; the other PR untouched', F, [P1], 'noqueue',
                        scen_reset(pre, [], RESET, FORCE, manual=False), **base))
        out.append(_cfg('reset:noqueue:F:srcpush', 'reset after the source branch was extended: not manual work',
                        F, [P1], 'noqueue',
                        scen_reset(pre, [('src_push', 1)], RESET, FORCE, manual=False), **base))
    elif prop == 'C12':
        WAIT = ('comment', 1, 'contributor', '@robot wait')
        for mode in ('noqueue', 'queue'):
            out.append(_cfg('hold:%s:F:wait' % mode, 'hold %s: wait comment, evaluated twice, lifted' % mode, F, [P1], mode,
                            scen_hold([], [WAIT], [('uncomment', 1, '@robot wait')], EV1, ('NothingToDo',)),
                            expect_outcomes=['NothingToDo']))
        out.append(_cfg('hold:queue:F:wait-late', 'hold queue: wait added after a first evaluation', F, [P1], 'queue',
                        scen_hold([EV1], [WAIT], [('uncomment', 1, '@robot wait')], EV1, ('NothingToDo',))))
        for mode in ('noqueue', 'queue'):
            out.append(_cfg('closed:%s:F:fresh' % mode, 'closed %s: declined before its first evaluation, evaluated twice' % mode,
                            F, [P1], mode, scen_finished([], [('decline', 1)], EV1),
                            expect_outcomes=['NothingToDo'], signame='closed pull request'))
        out.append(_cfg('closed:noqueue:F:evaluated', 'closed noqueue: evaluated, declined, evaluated twice',
                        F, [P1], 'noqueue', scen_finished([EV1], [('decline', 1)], EV1),
                        expect_outcomes=['PullRequestDeclined'], signame='closed pull request'))
        DEP = ('comment', 1, 'contributor', '/after_pull_request=2')
        out.append(_cfg('hold:noqueue:F:dep', 'hold noqueue: dependency on an open pull request, lifted by merging it',
                        F, [P1, P2], 'noqueue',
                        scen_hold([], [DEP], [('eval_pr', 2)], EV1, ('AfterPullRequest',)),
                        green=True, no_conflicts=True, expect_outcomes=['AfterPullRequest', 'SuccessMessage']))
    elif prop == 'C04':
        out.append(_indep_author_options('C04'))
    elif prop == 'C18':
        out.append(_cfg('ids:queue:F', 'pull request #12 is queued, then #1 (whose id is a prefix of 12) is evaluated: the '
                        'queue names Bert-E derived are read back as belonging to the pull request they were derived for',
                        F, [P1, (12, 'bugfix/b', 'development/4.3')], 'queue',
                        scen_expect([('eval_pr', 12), EV1, ('eval_queues',)], ['Queued', 'Queued', 'Merged']),
                        green=True, no_conflicts=True, signame='pull request ids'))
    elif prop == 'C09':
        jira = dict(jira_account_url='http://jira', jira_email='robot@x', jira_token='t', jira_keys=['PROJ'],
                    prefixes={'Bug': 'bugfix'}, disable_version_checks=False, required_peer_approvals=1)
        TK = 'PROJ-7'
        out.append(_cfg('stabgone:noqueue:E', 'the expected fix versions follow the branches that exist now: evaluated while '
                        'stabilization/4.3.18 exists (4.3.19 expected), the stabilization branch is deleted, evaluated again '
                        '(4.3.18 expected), the ticket is corrected, evaluated again', E,
                        [(1, 'bugfix/PROJ-7', 'development/4.3')], 'noqueue',
                        scen_expect([('approvals', 1, []), ('jira_set', TK, 'Bug', ['4.3.19', '5.1.0']), EV1,
                                     ('ref_delete', 'stabilization/4.3.18'), EV1,
                                     ('jira_set', TK, 'Bug', ['4.3.18', '5.1.0']), EV1],
                                    ['ApprovalRequired', 'IncorrectFixVersion', 'ApprovalRequired']),
                        settings=jira, tags=['4.3.17'], green=True, no_conflicts=True, sample_mod=1,
                        expect_outcomes=['ApprovalRequired', 'IncorrectFixVersion'], signame='fix versions after a release'))
        out.append(_cfg('cachetags:noqueue:E', 'a release tag seen by an earlier job is deleted on the host: the cascade of '
                        'the next job is computed from the tags that exist', E, [PS], 'noqueue',
                        scen_cache_independent([EV1, ('tag_delete', '4.3.18')], EV1),
                        tags=['4.3.17', '4.3.18'], green=True, no_conflicts=True,
                        expect_outcomes=['DeprecatedStabilizationBranch', 'SuccessMessage']))
    elif prop == 'C13':
        def served_ok(events):
            def scen(s, choose):
                bad = []
                for r in s.play(events):
                    if r['event'].startswith('serve') and r['out'].startswith('WORKER-'):
                        bad.append('C13 the worker does not survive / does not record the job (%s)' % r['out'])
                return bad
            return scen
        out.append(_cfg('serve:queue:F:incoherent', 'the worker serves queue and PR jobs while the queues are incoherent '
                        '(a queue branch deleted by hand)', F, [P1], 'queue',
                        served_ok([EV1, ('ref_delete', 'q/5.1'), ('serve', 'queues'), ('serve', 'pr', 1),
                                   ('serve', 'commit', 'q/4.3')]),
                        green=True, no_conflicts=True, expect_outcomes=['Queued', 'IncoherentQueues']))
        out.append(_cfg('tmp:noqueue:F', 'the scratch directory of the previous job vanished before the next job',
                        F, [P1, P2b], 'noqueue', scen_after_fault([('eval_pr', 2)], [('tmp_reaper',)], EV1),
                        green=True, no_conflicts=True, expect_outcomes=['SuccessMessage']))
    elif prop == 'C06':
        for mode in ('noqueue', 'queue'):
            out.append(_cfg('gate:%s:F' % mode, 'build gate along a history (%s): evaluate, source pushed, evaluate twice' % mode,
                            F, [P1], mode, scen_told([EV1, ('src_push', 1), EV1, EV1]), which=('C06',),
                            signame='build gate history %s' % mode))
    elif prop == 'C20':
        Q1 = [EV1]
        out.append(_cfg('adm:queue:F:del-queued', 'delete a branch targeted by a queued pull request', F, [P1], 'queue',
                        scen_admin(Q1, ('delete_branch', 'development/5.1'), _refuses_untouched('deleting a branch with queued pull requests')),
                        green=True, no_conflicts=True, expect_outcomes=['Queued', 'JobFailure']))
        out.append(_cfg('adm:queue:A:del-free', 'delete the oldest branch while a pull request is queued on the newer ones',
                        A, [(1, 'feature/a', 'development/5.1')], 'queue',
                        scen_admin(Q1, ('delete_branch', 'development/4.3'), _deletes_with_tag('development/4.3')),
                        green=True, no_conflicts=True, which=('C01',), expect_outcomes=['Queued', 'JobSuccess']))
        out.append(_cfg('adm:queue:F:create-mid', 'create an intermediate branch while a pull request is queued', F, [P1],
                        'queue', scen_admin(Q1, ('create_branch', 'development/5.0'), _creates('development/5.0', False)),
                        green=True, no_conflicts=True, expect_outcomes=['Queued']))
        out.append(_cfg('adm:queue:F:create-new', 'create the newest branch while a pull request is queued', F, [P1],
                        'queue', scen_admin(Q1, ('create_branch', 'development/10.0'), _creates('development/10.0', True)),
                        green=True, no_conflicts=True, which=('C01',), expect_outcomes=['Queued', 'JobSuccess']))
        out.append(_cfg('adm:queue:F:rebuild-order', 'rebuild the queues: pull request #2 was queued before #1', F, [P1, P2b],
                        'queue', scen_admin([('eval_pr', 2), EV1], ('rebuild_queues',), _rebuild(lambda s, b: [2, 1])),
                        green=True, no_conflicts=True, expect_outcomes=['Queued', 'JobSuccess']))
        out.append(_cfg('adm:queue:F:rebuild', 'rebuild the queues with two pull requests queued', F, [P1, P2b], 'queue',
                        scen_admin([EV1, ('eval_pr', 2)], ('rebuild_queues',), _rebuild(_queued_ids)),
                        green=True, no_conflicts=True, expect_outcomes=['Queued', 'JobSuccess']))
        out.append(_cfg('adm:noqueue:F:create-mid', 'create an intermediate branch, queues disabled', F, [P1], 'noqueue',
                        scen_admin([], ('create_branch', 'development/5.0'), _creates('development/5.0', True)),
                        which=('C01',)))
    elif prop in ('C01', 'C03', 'C08'):
        which = (prop,)
        modes = ('queue', 'skip') if prop == 'C03' else ('queue', 'noqueue', 'skip')
        for mode in modes:
            if tier != 'thorough':
                continue            # (quick tier: the two-PR history and, for C08, the mirror-cache histories)
            out.append(_cfg('hist:%s:F' % mode, 'history %s: evaluate, source pushed, evaluate, queues' % mode,
                            F, [P1], mode,
                            scen_play([EV1, ('src_push', 1), EV1, ('eval_queues',), EV1]), which=which,
                            signame='history %s' % mode))
        out.append(_cfg('hist:queue:F:2prs', 'history queue: two PRs queued, queues evaluated twice',
                        F, [P1, P2b], 'queue',
                        scen_play([EV1, ('eval_pr', 2), ('eval_queues',), ('eval_queues',)]), which=which,
                        signame='history queue 2 PRs'))
        if prop == 'C08':
            TP = 'feature/third-party'
            for mode in ('noqueue', 'queue'):
                tail = [EV1] if mode == 'noqueue' else [EV1, ('eval_queues',)]
                out.append(_cfg('cache:%s:F:create' % mode, 'mirror cache (%s): a job, a third party creates a branch, the cache '
                                'refresh fails once, evaluation%s' % (mode, ' and queue merge' if mode == 'queue' else ''),
                                F, [P1], mode,
                                scen_play([('approvals', 1, []), EV1, ('approvals', 1, None),
                                           ('ref_create', TP, 'development/4.3'), ('fetch_fault',)] + tail + [EV1]),
                                settings=dict(required_peer_approvals=1),
                                which=which, green=True, no_conflicts=True, signame='mirror cache %s' % mode,
                                expect_outcomes=['CommandError']))
            out.append(_cfg('race:noqueue:F', 'somebody pushes to the source branch while the merging job clones (after the '
                            'mirror cache was refreshed, before origin/* are updated)', F, [P1], 'noqueue',
                            scen_play([('approvals', 1, []), EV1, ('approvals', 1, None), ('race_push', 'feature/a'),
                                       EV1, EV1]),
                            settings=dict(required_peer_approvals=1), which=which, green=True, no_conflicts=True,
                            signame='race during clone'))
            out.append(_cfg('cache:noqueue:F:delete', 'mirror cache: a job, the newest branch is deleted on the host, the cache '
                            'refresh fails once, evaluation', A, [P1], 'noqueue',
                            scen_play([('approvals', 1, []), EV1, ('approvals', 1, None),
                                       ('ref_delete', 'development/10.0'), ('ref_delete', 'w/10.0/feature/a'),
                                       ('fetch_fault',), EV1, EV1]),
                            settings=dict(required_peer_approvals=1),
                            which=which, green=True, no_conflicts=True, signame='mirror cache delete',
                            expect_outcomes=['CommandError']))
        if prop == 'C08':
            out.append(_cfg('during:queue:F:create-branch', 'somebody creates a branch while a create-branch job runs (before its '
                            'first push), pull requests being queued: the follow-up queue rebuild works on a clone of its own',
                            F, [P1], 'queue',
                            scen_third_party_survives(
                                [EV1, ('during', 0, ('ref_create', 'feature/third-party', 'development/4.3')),
                                 ('create_branch', 'development/5.2'), EV1], 'feature/third-party'),
                            which=which, green=True, no_conflicts=True, signame='third party during create-branch',
                            created=('development/5.2',),
                            expect_outcomes=['Queued', 'JobSuccess'], sample_mod=1))
        if tier == 'thorough':
            out.append(_cfg('hist:queue:A', 'history queue 3 targets', A, [P1], 'queue',
                            scen_play([EV1, ('eval_queues',), EV1]), which=which, signame='history queue'))
            out.append(_cfg('hist:queue:E', 'history queue stabilization PR', E, [PS], 'queue',
                            scen_play([EV1, ('eval_queues',), EV1]), which=which, signame='history queue'))
    return out


def _indep_author_options(prop):
    """Two pull requests of the same author who has an entry in pr_author_options; an admin
    grants a review bypass by comment on the *other* pull request (evaluated first, held by
    `wait`); the first pull request lacks approvals and must be refused whatever was granted
    on the other one."""
    opts = {'contributor': {k: False for k in (
        'bypass_author_approval', 'bypass_jira_check', 'bypass_build_status', 'bypass_commit_size',
        'bypass_incompatible_branch', 'bypass_peer_approval', 'bypass_leader_approval')}}
    held = [('comment', 2, 'contributor', '@robot wait'), ('approvals', 1, [])]
    return _cfg('indep:noqueue:F:author-options', 'independence: the author has per-author options; an admin bypass '
                'written on his other (held) pull request must not carry over', F, [P1, P2b], 'noqueue',
                scen_independent(
                    held + [('comment', 2, 'admin', '@robot bypass_peer_approval bypass_author_approval'),
                            ('eval_pr', 2)],
                    held + [('comment', 2, 'admin', '@robot bypass_jira_check'), ('eval_pr', 2)], ('eval_pr', 1)),
                settings=dict(required_peer_approvals=1, need_author_approval=True, pr_author_options=opts),
                green=True, no_conflicts=True, expect_outcomes=['ApprovalRequired'],
                signame='independence author options')


def _child_event(s):
    kids = [c for c in s.host.prs.values() if c.author == H.ROBOT]
    if not kids:
        return None
    return ('eval_pr', min(k.id for k in kids))


def check(rep, prop, part='histories'):
    rep.stubs += [x for x in prepare() if x not in rep.stubs]
    cfgs = family(prop, rep.tier)
    if os.environ.get('VERIF_HIST_ONLY'):
        keep = os.environ['VERIF_HIST_ONLY'].split(',')
        cfgs = [c for c in cfgs if any(c['key'].startswith(k) for k in keep)]
    rep.functions_encoded += [x for x in [
        'histories (harness/history.py): gitwaterflow.handle_pull_request / handle_commit / '
        'handle_parent_pull_request, queueing.handle_merge_queues, jobs.delete_queues - complete jobs chained '
        'on one symbolic repository, each from a fresh clone of what the previous ones left'] if x not in rep.functions_encoded]
    rep.bounds['histories'] = dict(jobs_per_history='<= 9', fresh_commits=24,
                                   configurations=[c['name'] for c in cfgs])
    run_family(rep, prop, cfgs, part)
    return cfgs


def replay(prop, data):
    prepare()
    for tier in ('quick', 'thorough'):
        for c in family(prop, tier):
            if c['key'] == data['history']:
                labels, jobs = run_real(c, data['world'], data['choices'], data.get('pushed', ()))
                return data['label'] in labels
    raise HarnessError('unknown history %r' % data['history'])
