"""C01 - forward-port inclusion of destination branches is an invariant.

Inductive step on the symbolic repository: if inclusion holds on the remote
before a job, it holds after every observable remote update of the job."""
from . import gitprops, histcheck


def check(rep):
    rep.assumptions += [
        'destination branches are written only by the routines encoded here '
        '(queue merge, direct merge, create/delete branch)',
        'fidelity of the symgit model (validated against /usr/bin/git on sampled paths every run)']
    rep.outside_claim += ['histories as such (covered by induction from an arbitrary state '
                          'satisfying the invariant)', 'file contents']
    gitprops.run(rep, 'C01')
    histcheck.check(rep, 'C01')


def replay(data):
    if 'history' in data:
        return histcheck.replay('C01', data)
    return gitprops.replay(data)
