"""C06 - the build gate.

Real code: gitwaterflow.check_build_status, utils.bypass_build_status,
PullRequestJob.author_bypass, Branch.get_latest_commit (on a stub repository
that answers `git rev-parse`), GhostIntegrationBranch / IntegrationBranch.

Symbolic: the status of every integration tip (5 values), bypass from its
sources (job-level slot = comment or command line, per-author entry), the
truthiness of the build key; the answer of the host for any *other*
(commit, key) pair is a fresh unconstrained status, so reading the wrong
commit or the wrong key falsifies the oracle.
Enumerated: number of integration branches 1..4.
"""
import types
import z3

from symx.core import SBool, SEnum, explore, model_value, HarnessError
from symx.report import Cex
from . import common

ST = ['SUCCESSFUL', 'INPROGRESS', 'NOTSTARTED', 'STOPPED', 'FAILED']
KEY = 'pre-merge'
SRC = 'bugfix/PROJ-12-fix'
VERS = ['4.3', '5.1', '10.0', '11']


class StubRepo:
    """Answers only `git rev-parse <branch>` (tips are named after branches)."""
    def __init__(self):
        self.log = []

    def cmd(self, command, *args, **kw):
        if args:
            command = command % tuple(args)
        self.log.append(command)
        toks = command.split()
        if toks[:2] == ['git', 'rev-parse']:
            return 'tip:%s\n' % toks[2].strip("'")
        raise HarnessError('C06 stub repo: unexpected command %r' % command)


def names(n):
    return [SRC] + ['w/%s/%s' % (v, SRC) for v in VERS[1:n]]


def build(n, sval, flags, symbolic, ctx=None):
    """sval: name -> status (SEnum or str); flags: dict of bool/SBool/z3."""
    from bert_e.job import PullRequestJob
    from bert_e.lib.settings_dict import SettingsDict
    from bert_e.workflow.gitwaterflow import branches as B
    repo = StubRepo()
    dsts = [B.branch_factory(repo, 'development/' + v) for v in VERS[:n]]
    wbs = []
    for k, nm in enumerate(names(n)):
        if k == 0:
            w = B.GhostIntegrationBranch(repo, nm, dsts[0])
        else:
            w = B.branch_factory(repo, nm)
        w.dst_branch = dsts[k]
        wbs.append(w)
    asked = []

    class Host:
        def get_build_status(self, sha, key):
            sha = sha.strip()
            asked.append((sha, key))
            nm = sha[4:] if sha.startswith('tip:') else None
            if key == KEY and nm in sval:
                return sval[nm]
            if symbolic:      # anything else: an unrelated, unconstrained status
                return SEnum.fresh(ctx, 'other_status', ST)
            return 'NOTSTARTED'

        def get_build_url(self, sha, key):
            return 'http://build'

        def get_commit_url(self, sha):
            return 'http://commit'
    Bv = (lambda x: SBool(x)) if symbolic else bool
    pao = {}
    has = flags['has_ab']
    if symbolic:
        has = bool(SBool(has))
    if has:
        pao['author'] = {'bypass_build_status': Bv(flags['ab_build']),
                         'bypass_peer_approval': False}
    if symbolic:
        key = KEY if bool(SBool(flags['has_key'])) else ''
    else:
        key = KEY if flags['has_key'] else ''
    job = PullRequestJob.__new__(PullRequestJob)
    job.settings = SettingsDict(
        {'bypass_build_status': Bv(flags['bypass_build_status'])},
        dict(build_key=key, pr_author_options=pao, repository_host='mock',
             repository_owner='o', repository_slug='s', robot='robot'))
    job.pull_request = types.SimpleNamespace(author='author', id=1)
    job.project_repo = Host()
    job.start_time = job.end_time = None
    job.id = 'c06'
    job.bert_e = types.SimpleNamespace(settings=types.SimpleNamespace(
        pull_request_base_url='http://x/{pr_id}'))
    return job, wbs, asked


def run(job, wbs):
    import bert_e.workflow.gitwaterflow as gwf
    from bert_e import exceptions as ex
    try:
        gwf.check_build_status(job, wbs)
        return 'pass'
    except ex.BuildFailed:
        return 'failed'
    except ex.SilentException as e:
        return 'wait:' + type(e).__name__


def oracle(n, st, f):
    """st: name -> z3 Int status code; returns dict outcome -> condition."""
    code = {s: i for i, s in enumerate(ST)}
    byp = z3.Or(f['bypass_build_status'], f['ab_build'], z3.Not(f['has_key']))
    anyof = lambda ss: z3.Or(*[st[nm] == code[s] for nm in names(n) for s in ss])  # noqa
    bad = anyof(['FAILED', 'STOPPED'])
    pending = anyof(['NOTSTARTED', 'INPROGRESS'])
    return {
        'pass': z3.Or(byp, z3.And(z3.Not(bad), z3.Not(pending))),
        'failed': z3.And(z3.Not(byp), bad),
        'wait': z3.And(z3.Not(byp), z3.Not(bad), pending),
    }


def _vars(n):
    f = {k: z3.Bool(k) for k in ('bypass_build_status', 'ab_build', 'has_ab',
                                 'has_key')}
    st = {nm: z3.Int('st_' + nm) for nm in names(n)}
    return f, st


def _pre(n, f, st):
    return z3.And(z3.Implies(z3.Not(f['has_ab']), z3.Not(f['ab_build'])),
                  *[z3.And(s >= 0, s < 5) for s in st.values()])


def make_harness(n, twin=False):
    def h(ctx):
        f, st = _vars(n)
        ctx.assume(_pre(n, f, st))
        sval = {nm: SEnum(t, ST) for nm, t in st.items()}
        job, wbs, asked = build(n, sval, f, True, ctx)
        out = run(job, wbs)
        cls = out.split(':')[0]
        orc = oracle(n, st, f)
        cond = orc[cls]
        if twin:
            cond = z3.And(cond, st[names(n)[-1]] != 4)
        ctx.stats.obligations += 1
        r, m = ctx.sat_model(z3.Not(cond))
        allv = dict(f)
        allv.update({'st_' + nm: t for nm, t in st.items()})
        if r == 'sat':
            return dict(out=out, bad={k: model_value(m, t) for k, t in allv.items()}, wit=None)
        r2, m2 = ctx.sat_model()
        return dict(out=out, bad=None,
                    wit={k: model_value(m2, t) for k, t in allv.items()})
    return h


def concrete(n, vals):
    sval = {nm: ST[vals['st_' + nm]] for nm in names(n)}
    job, wbs, asked = build(n, sval, vals, False)
    out = run(job, wbs)
    f, st = _vars(n)
    subs = [(t, z3.BoolVal(bool(vals[k]))) for k, t in f.items()]
    subs += [(t, z3.IntVal(vals['st_' + nm])) for nm, t in st.items()]
    orc = oracle(n, st, f)
    exp = [k for k, c in orc.items()
           if z3.is_true(z3.simplify(z3.substitute(c, *subs)))]
    pre = z3.is_true(z3.simplify(z3.substitute(_pre(n, f, st), *subs)))
    return pre, out, exp, asked


def replay(data):
    if isinstance(data, dict) and data.get('kind') == 'bypass-comment':
        import bert_e.workflow.gitwaterflow as gwf
        common.install_common_stubs()
        gwf.setup({})
        out = comment_run(data['who'], data['text'])
        asks = 'bypass_build_status' in data['text']
        return (out == 'pass') != (asks and data['who'] == 'admin') or (asks and data['who'] != 'admin' and out != 'refused')
    import bert_e.workflow.gitwaterflow as gwf
    if data.get('kind') == 'authoropts':
        from . import authoropts
        return authoropts.replay(data)
    if data.get('part') == 'api':
        from . import c14
        return c14.replay(data)
    if 'history' in data:
        from . import histcheck
        return histcheck.replay('C06', data)
    if data.get('scenario') == 'handle_pr':
        from . import gitflow as GF
        common.install_common_stubs(common.named_render)
        bad, out = GF.replay_on_real_git(data)
        return data['label'] in bad
    common.install_common_stubs()
    common.silence(gwf)
    pre, out, exp, asked = concrete(data['n'], data['vals'])
    return pre and out.split(':')[0] not in exp


# ---------------------------------------------------------------------------
# history clause: the complete handler on the symbolic repository
def handler_configs(tier):
    F = ['development/4.3', 'development/5.1']
    A = ['development/4.3', 'development/5.1', 'development/10.0']
    p1 = (1, 'feature/a', 'development/4.3')
    cfgs = [dict(shape=F, pr=p1, mode='noqueue', no_octopus=True),
            dict(shape=F, pr=p1, mode='queue', no_octopus=True),
            dict(shape=F, pr=p1, mode='skip', no_octopus=True)]
    if tier == 'thorough':
        # (the complete handler on three targets did not finish in 400 s per configuration - DESIGN 12)
        cfgs += [dict(shape=F, pr=p1, mode='noqueue', no_octopus=False),
                 dict(shape=F, pr=p1, mode='queue', no_octopus=False)]
    return cfgs


def make_handler_harness(c):
    from . import gitflow as GF

    def h(ctx):
        pr = GF.PR(*c['pr'])
        refs = GF.handler_refs(c['shape'], pr, c['mode'])
        repo, host, out = GF.scenario_handle_pr(
            ctx, c['shape'], pr, len(refs) + 1, c['mode'],
            lambda byp, host: [GF.mon_handler_builds(c['shape'], pr, byp, host)],
            no_octopus=c['no_octopus'])
        vio = []
        for v in repo.violations:
            d = GF.cex_data('handle_pr', c['shape'], [pr], v, mode=c['mode'], no_octopus=c['no_octopus'])
            d['params']['bypass'] = bool(model_value(v.model, z3.Bool('bypass_build_status')))
            vio.append(d)
        return dict(out=out, vio=vio, nops=len(repo.remote_ops))
    return h


def handler_part(rep):
    from . import gitflow as GF
    import bert_e.workflow.gitwaterflow as gwf
    common.install_common_stubs(common.named_render)
    rep.stubs += GF.silence_all()
    gwf.setup({})
    rep.stubs += ['git binary -> symgit (closure model); `git log` -> empty: the history-mismatch '
                  'check of update_integration_branches is cut', 'approvals: the PR is fully approved; '
                  'Jira off; no integration pull requests']
    rep.functions_encoded += ['gitwaterflow.handle_pull_request/_handle_pull_request (complete)',
                              'integration.create/update_integration_branches, check_conflict, '
                              'merge_integration_branches', 'gitwaterflow.check_in_sync', 'queueing.is_needed/'
                              'add_to_queue/already_in_queue', 'branches.BranchCascade.build/validate']
    cfgs = handler_configs(rep.tier)
    acc = common.explore_configs(cfgs, make_handler_harness, split_depth=6, max_depth=3000)
    for i, msg in common.pop_config_errors():
        rep.error('whole-handler configuration %d inconclusive: %s' % (i, msg[:300]))
    by_sig = {}
    for i, c in enumerate(cfgs):
        results, st = acc[i]
        rep.add_stats(st, 'whole handler, %s mode, %d targets%s' % (
            c['mode'], len(c['shape']), ' no_octopus' if c['no_octopus'] else ''))
        outs = set(r['out'] for _, r in results)
        want = 'Queued' if c['mode'] == 'queue' else 'SuccessMessage'
        if want not in outs:
            rep.error('vacuity: whole-handler run (%s) never reached %s: %s' % (c['mode'], want, sorted(outs)))
        for _, r in results:
            for v in r['vio']:
                by_sig.setdefault('%s [%s mode]' % (v['label'], c['mode']), []).append(v)
    for sig, vs in sorted(by_sig.items()):
        vs.sort(key=lambda v: (v['conflicts'] + v['differs'], not v['prefs_ok']))
        rep_ok = None
        for v in vs[:6]:
            if v['conflicts'] or v['differs']:
                continue
            bad, out = GF.replay_on_real_git(v)
            if v['label'] in bad or (v['label'].startswith('C06 merged although') and out == 'SuccessMessage'):
                rep_ok = v
                break
        v = rep_ok or vs[0]
        rep.cexs.append(Cex('C06', sig, v, rep_ok is not None, '%s (%d symbolic paths)' % (sig, len(vs))))


# -- the bypass as it arrives through comments -------------------------------------------------
COMMENTERS = ['admin', 'author', 'other']           # the author is not an admin here
BYPASS_TEXTS = ['@robot bypass_build_status', '@robot bypass_build_status create_pull_requests',
                '/bypass_build_status /create_pull_requests', '@robot create_pull_requests bypass_build_status',
                '@robot create_pull_requests', '@robot: bypass_build_status, create_pull_requests']


def comment_run(who, text, status='FAILED'):
    """One comment, then the real handle_comments and the real gate on a red build."""
    import bert_e.workflow.gitwaterflow as gwf
    from bert_e import exceptions as ex
    flags = dict(bypass_build_status=False, has_ab=False, ab_build=False, has_key=True)
    sval = {nm: ('SUCCESSFUL' if k else status) for k, nm in enumerate(names(2))}
    job, wbs, asked = build(2, sval, flags, False)
    job.settings.maps[-1].update(admins=['admin'])

    class C(common.HostNames):
        def __init__(self, author, text):
            self.author, self.text = author, text
    job.pull_request = C('author', None)
    job.pull_request.id = 1
    job.pull_request.comments = [C(who, text)]
    job.bert_e.client = types.SimpleNamespace(login='robot')
    try:
        gwf.handle_comments(job)
    except ex.NotEnoughCredentials:
        return 'refused'
    except ex.BertE_Exception as e:
        return 'comment:' + type(e).__name__
    return run(job, wbs)


def comment_harness(ctx):
    who = COMMENTERS[ctx.choose('commenter', len(COMMENTERS))]
    text = BYPASS_TEXTS[ctx.choose('text', len(BYPASS_TEXTS))]
    out = comment_run(who, text)
    asks = 'bypass_build_status' in text
    ctx.stats.obligations += 1
    # the red build may only be passed over when an admin (who is not the author) asked for it
    bad = (out == 'pass') != (asks and who == 'admin')
    if asks and who != 'admin' and out != 'refused':
        bad = True
    return dict(who=who, text=text, out=out, bad=bad)


def comment_part(rep):
    import bert_e.workflow.gitwaterflow as gwf
    gwf.setup({})
    results, st = explore(comment_harness)
    rep.add_stats(st, 'bypass through comments')
    rep.functions_encoded += ['gitwaterflow.handle_comments / Reactor.handle_options feeding the gate '
                              '(bypass_build_status written by an admin, the author, somebody else; alone, first, last)']
    rep.bounds['bypass comments'] = dict(commenters=COMMENTERS, texts=BYPASS_TEXTS)
    outs = set(r['out'] for _, r in results)
    if not {'pass', 'failed', 'refused'} <= outs:
        rep.error('vacuity: bypass comments reached %s' % sorted(outs))
    for _, r in results:
        if r['bad']:
            data = dict(kind='bypass-comment', who=r['who'], text=r['text'])
            rep.cexs.append(Cex('C06', 'a red build is passed over (or not) on the word of the wrong commenter',
                                data, replay(data), 'comment %r by %s -> %s' % (r['text'], r['who'], r['out'])))
            break
        rep.validated += 1


def _one(arg):
    n, twin = arg
    results, st = explore(make_harness(n, twin))
    return n, twin, results, st.as_dict()


def check(rep):
    import bert_e.workflow.gitwaterflow as gwf
    rep.stubs += common.install_common_stubs()
    rep.stubs += ['repository: answers `git rev-parse <branch>` only',
                  'git host: get_build_status(sha, key) -> symbolic status of '
                  'that tip for the configured key, fresh unconstrained status '
                  'for any other (sha, key)']
    common.silence(gwf)
    rep.functions_encoded += [
        'bert_e.workflow.gitwaterflow.check_build_status',
        'bert_e.workflow.gitwaterflow.utils.bypass_build_status',
        'bert_e.job.PullRequestJob.author_bypass',
        'bert_e.lib.git.Branch.get_latest_commit']
    maxn = 4
    rep.bounds = dict(integration_branches='1..%d' % maxn, statuses=ST)
    rep.outside_claim += [
        'which of BuildNotStarted / BuildInProgress is raised (both silent)',
        'the history-mismatch check of update_integration_branches (needs git log)']
    outs = common.pmap(_one, [(n, False) for n in range(1, maxn + 1)] +
                       [(n, True) for n in (1, 2)])
    classes = set()
    twin_refuted = False
    for n, twin, results, st in outs:
        if twin:
            twin_refuted |= any(r['bad'] is not None for _, r in results)
            rep.add_part('reachability twin', paths=st['paths'])
            continue
        rep.add_stats(st, 'n=%d integration branches' % n)
        for _, r in results:
            classes.add(r['out'].split(':')[0])
            if r['bad'] is not None:
                data = dict(n=n, vals=r['bad'])
                ok = replay(data)
                rep.cexs.append(Cex(
                    'C06', 'check_build_status disagrees with the statement',
                    data, ok, 'n=%d outcome=%s on %r' % (n, r['out'], r['bad'])))
        wits = [r['wit'] for _, r in results if r['wit']]
        for i in common.sample_indices(len(wits), 150, rep.seed):
            pre, out, exp, asked = concrete(n, wits[i])
            if not pre or out.split(':')[0] not in exp:
                rep.error('witness replay mismatch n=%d %r' % (n, wits[i]))
                break
            rep.validated += 1
        if wits:
            rep.sample(dict(n=n, inputs=wits[0]))
    if classes != {'pass', 'failed', 'wait'}:
        rep.error('vacuity: outcome classes reached = %s' % sorted(classes))
    if not twin_refuted:
        rep.error('reachability twin not refuted')
    comment_part(rep)
    handler_part(rep)
    from . import authoropts
    authoropts.check(rep, 'C06', ['bypass_build_status'])
    # the gate along histories where the integration tips change between report and evaluation
    from . import histcheck
    histcheck.check(rep, 'C06')
    from . import c14
    c14.eval_api_part(rep, 'C06')

