"""C10 - re-evaluation converges, never spams, and commands run once (partial).

The comment-history mechanics as an inductive step: from an arbitrary comment
history (symbolic authors and message kinds, bounded length) the real
handle_pull_request is evaluated three times in a row up to clone_git_repo
(early_checks, send_greetings, handle_comments with the real Reactor and the
real command handlers, notify_user / _send_comment / find_comment with the live
dont_repeat_if_in_history attributes).  `_reset` itself is replaced by a stub
raising what the real one raises (ResetComplete, or LossyResetWarning under a
symbolic flag); C15 covers `_reset`.
"""
import types
import z3

from symx.core import SBool, explore, model_value, HarnessError, Ctx
from symx.report import Cex
from . import common
from .c12 import HoldRepo, ReachedClone, Touched

ROBOT_TEXTS = None      # filled from the live exception classes
USER_TEXTS = ['@robot reset', '@robot force_reset', '@robot help', '@robot status', '@robot build',
              '@robot create_pull_requests', 'thanks!', '/reset', '@robot: reset', '@robot frobnicate']
COMMAND_OUTCOMES = {'ResetComplete', 'LossyResetWarning', 'HelpMessage', 'StatusReport',
                    'CommandNotImplemented'}


def robot_texts():
    from bert_e import exceptions as ex
    out = []
    for cls in (ex.InitMessage, ex.ResetComplete, ex.LossyResetWarning, ex.HelpMessage,
                ex.StatusReport, ex.CommandNotImplemented, ex.ApprovalRequired, ex.UnknownCommand):
        out.append(common.named_render(cls.template, code=cls.code))
    return out


def build_history(ctx, n, vals=None):
    rt = robot_texts()
    hist = []
    chosen = []
    for i in range(n):
        if vals is None:
            is_robot = ctx.decide(z3.Bool('robot%d' % i))
            k = ctx.choose('text%d' % i, len(rt) if is_robot else len(USER_TEXTS))
        else:
            is_robot, k = vals[i]
        chosen.append((bool(is_robot), k))
        hist.append(('robot', rt[k]) if is_robot else ('contributor', USER_TEXTS[k]))
    return hist, chosen


def evaluate(history, lossy):
    """One real evaluation; returns (outcome, list of newly posted texts)."""
    import bert_e.workflow.gitwaterflow as gwf
    from bert_e.workflow.gitwaterflow import commands as C
    from bert_e.job import PullRequestJob
    from bert_e import exceptions as ex
    from . import gitflow as GF

    class Comment(common.HostNames):
        def __init__(self, author, text):
            self.author, self.text = author, text
    comments = [Comment(a, t) for a, t in history]
    posted = []

    class PRObj(common.HostNames):
        id = 1
        _author = 'contributor'
        author_display_name = 'contributor'
        src_branch = 'bugfix/PROJ-1-x'
        dst_branch = 'development/4.3'
        title = 't'
        description = ''
        status = 'OPEN'

        def __init__(self):
            self.comments = comments

        def add_comment(self, msg):
            posted.append(msg)
            self.comments.append(Comment('robot', msg))

        def set_bot_status(self, *a, **k):
            pass
    host = types.SimpleNamespace(full_name='o/r')
    repo = HoldRepo({'development/4.3'})
    berte = GF.make_berte(repo, host)
    job = PullRequestJob(bert_e=berte, pull_request=PRObj())

    def fake_reset(job, force=False):
        if lossy and not force:
            raise ex.LossyResetWarning(active_options=job.active_options)
        raise ex.ResetComplete(couldnt_decline=[], active_options=job.active_options)
    orig = C._reset
    C._reset = fake_reset
    try:
        try:
            gwf.handle_pull_request(job)
            out = 'returned'
        except ReachedClone:
            out = 'proceeds'
        except Touched as e:
            out = 'TOUCHED'
        except ex.BertE_Exception as e:
            out = type(e).__name__
            if isinstance(e, ex.TemplateException):
                evaluate.last_message = (str(e), type(e).dont_repeat_if_in_history)
    finally:
        C._reset = orig
    return out, posted, [(c.author, c.text) for c in comments]


def analyse(history, lossy):
    """Three evaluations in a row; returns list of violated clauses."""
    bad = []
    h = list(history)
    outs = []
    for k in range(3):
        evaluate.last_message = None
        out, posted, h2 = evaluate(h, lossy)
        outs.append((out, list(posted)))
        # (iv) what blocks the pull request is explained: the message of the evaluation is posted
        #      unless the robot's latest message already says exactly that
        if evaluate.last_message is not None:
            msg, policy = evaluate.last_message
            robot_before = [t for a, t in h if a == 'robot']
            last = robot_before[-1] if robot_before else None
            if msg not in posted and ((policy == 0) or (policy == -1 and last != msg)):
                bad.append('the message of an evaluation is not posted although the robot\'s latest message '
                           'is a different one (evaluation %d)' % (k + 1))
        # (i) no message twice in a row
        for i in range(len(h), len(h2)):
            if i > 0 and h2[i][0] == 'robot' and h2[i - 1] == h2[i]:
                bad.append('the robot posted the same message twice in a row (evaluation %d)' % (k + 1))
        if len(posted) > 2:
            bad.append('more than two comments in one evaluation')
        h = h2
    # (ii) a command executed in one evaluation is not executed again by the next
    for k in (0, 1):
        if outs[k][0] in COMMAND_OUTCOMES and outs[k + 1][0] in COMMAND_OUTCOMES:
            bad.append('a command comment is executed again by the next evaluation (%s then %s)'
                       % (outs[k][0], outs[k + 1][0]))
            break
    # (iii) the third evaluation posts nothing
    if outs[2][1]:
        bad.append('the third evaluation in a row still posts a comment')
    return bad, outs


def make_harness(n, twin=False):
    def h(ctx):
        hist, chosen = build_history(ctx, n)
        lossy = ctx.decide(z3.Bool('lossy'))
        bad, outs = analyse(hist, lossy)
        if twin and outs[0][0] in COMMAND_OUTCOMES:
            bad = bad + ['twin']
        ctx.stats.obligations += 3
        return dict(bad=bad, chosen=chosen, lossy=lossy, outs=[o for o, _ in outs], hist=hist)
    return h


def signature(label, hist, outs):
    """Shape of a failing history: which answer is repeated."""
    kind = label.split(' (')[0]
    if kind.startswith('a command comment is executed again'):
        rep = [o for o in outs if o in COMMAND_OUTCOMES]
        return '%s: %s is not re-posted when it equals the robot\'s last message, so the command stays pending' % (
            kind, rep[0] if rep else '?')
    return kind


def settings_independence(rep):
    """Options read in one evaluation do not leak into the next one."""
    from bert_e.reactor import Reactor
    import bert_e.workflow.gitwaterflow as gwf
    from bert_e.lib.settings_dict import SettingsDict
    r = Reactor()

    def mk(comments):
        job = types.SimpleNamespace(
            settings=SettingsDict({}, dict(admins=['admin'], robot='robot')),
            pull_request=types.SimpleNamespace(author='contributor', comments=[
                types.SimpleNamespace(author=a, text=t) for a, t in comments]),
            bert_e=types.SimpleNamespace(client=types.SimpleNamespace(login='robot')))
        job.active_options = []
        return job
    j1 = mk([('contributor', '@robot after_pull_request=5 create_pull_requests'),
             ('admin', '@robot bypass_jira_check')])
    gwf.handle_comments(j1)
    j2 = mk([('contributor', 'nothing special')])
    gwf.handle_comments(j2)
    defaults = {k: o.default for k, o in Reactor.get_options().items()}
    problems = []
    for k, v in j2.settings.maps[0].items():
        if v != defaults.get(k):
            problems.append('option %s = %r after an unrelated job' % (k, v))
        if isinstance(v, (set, list, dict)) and v is defaults.get(k):
            problems.append('option %s shares its mutable default with the registry' % k)
        if isinstance(v, (set, list, dict)) and v is j1.settings.maps[0].get(k):
            problems.append('option %s shares a mutable object with the previous job' % k)
    if '5' not in j1.settings.after_pull_request:
        problems.append('after_pull_request not recorded in the first job')
    rep.transitions += 1
    for p in problems:
        rep.cexs.append(Cex('C10', 'option state leaks between evaluations', dict(part='settings', p=p),
                            True, p))


def replay(data):
    common.install_common_stubs(common.named_render)
    import bert_e.workflow.gitwaterflow as gwf
    gwf.setup({})
    _quiet()
    if data.get('part') == 'settings':
        return True
    if 'history' in data:
        from . import histcheck
        return histcheck.replay('C10', data)
    if data.get('kind') == 'userdict':
        from . import userdict
        return userdict.replay(data)
    bad, outs = analyse([tuple(x) for x in data['hist']], data['lossy'])
    return any(b.split(' (')[0] == data['label'].split(' (')[0] for b in bad)


def _quiet():
    import bert_e.workflow.gitwaterflow as gwf
    import bert_e.workflow.pr_utils as PU
    import bert_e.reactor as RX
    common.silence(gwf, PU, RX)


def check(rep):
    rep.stubs += common.install_common_stubs(common.named_render)
    rep.stubs += ['message text -> "[template code]" (deterministic, distinct per message kind)',
                  'commands._reset -> raises ResetComplete / LossyResetWarning as the real one does',
                  'repository -> raises on any command before clone_git_repo']
    _quiet()
    import bert_e.workflow.gitwaterflow as gwf
    gwf.setup({})
    rep.functions_encoded += ['gitwaterflow.handle_pull_request/_handle_pull_request (up to the clone)',
                              'gitwaterflow.send_greetings/handle_comments', 'reactor.Reactor.handle_commands/'
                              'handle_options/init_settings', 'commands.reset/force_reset/print_help/status/'
                              'not_implemented', 'pr_utils.notify_user/_send_comment/find_comment',
                              'exceptions.*.dont_repeat_if_in_history']
    n = 3 if rep.tier == 'quick' else 4
    rep.bounds = dict(history_length='0..%d' % n, evaluations_in_a_row=3,
                      robot_messages=robot_texts(), user_comments=USER_TEXTS)
    rep.outside_claim += ['fixed point / independence from earlier jobs: decided on the bounded histories listed '
                          'under bounds.histories only (states reached by longer histories are outside)']
    seen = {}
    nexec = 0
    for k in range(0, n + 1):
        results, st = common.explore_parallel(make_harness(k), split_depth=6, max_paths=2000000)
        rep.add_stats(st, 'history length %d' % k)
        for _, r in results:
            if any(o in COMMAND_OUTCOMES for o in r['outs']):
                nexec += 1
            for b in r['bad']:
                sig = signature(b, r['hist'], r['outs'])
                if sig not in seen or len(r['hist']) < len(seen[sig]['hist']):
                    seen[sig] = dict(hist=r['hist'], lossy=r['lossy'], label=b, outs=r['outs'])
            if not r['bad']:
                rep.validated += 0
    if nexec == 0:
        rep.error('vacuity: no evaluation executed a command')
    for sig, d in sorted(seen.items()):
        rep.cexs.append(Cex('C10', sig, d, replay(d), 'history %s -> outcomes %s' % (d['hist'], d['outs'])))
    tw, st = explore(make_harness(2, twin=True))
    if not any('twin' in r['bad'] for _, r in tw):
        rep.error('reachability twin not refuted')
    settings_independence(rep)
    rep.sample(dict(history=[('robot', robot_texts()[0]), ('contributor', '@robot reset')],
                    evaluations=analyse([('robot', robot_texts()[0]), ('contributor', '@robot reset')], False)[1]))
    rep.validated += 1
    # convergence over bounded histories of complete jobs on the symbolic repository
    from . import histcheck
    histcheck.check(rep, 'C10')
    # "is this comment mine?" goes through the loaded robot identity (name@account_id)
    from . import userdict
    userdict.check(rep, 'C10')
