"""C13 - the server never loses an event and its worker never dies.

(a) Worker robustness: real BertE.process_task (+ real process for the
    exception classification) on an instance made with __new__; the job
    handler raises a symbolic choice of exception kinds.
(b) Duplicate suppression as a rely/guarantee step: real BertE.put_job and the
    real PullRequestJob.__eq__ / CommitJob.__eq__ on jobs whose keys are
    symbolic, with interference (the worker taking the head job, or another
    webhook thread putting a job) injected at every shared access of put_job.
"""
import queue
import types
from collections import deque
import z3

from symx.core import SBool, SInt, explore, model_value, HarnessError, Ctx
from symx.report import Cex
from . import common

KINDS = ['ok', 'silent', 'template', 'internal', 'jobfailure', 'runtime', 'str_raises',
         'keyerror']


# ---------------------------------------------------------------------------
def make_berte():
    from bert_e.bert_e import BertE
    from bert_e.lib.settings_dict import SettingsDict
    b = BertE.__new__(BertE)
    b.settings = SettingsDict(dict(backtrace=False, quiet=True))
    b.task_queue = queue.Queue()
    b.tasks_done = deque(maxlen=1000)
    b.status = {}
    b.git_repo = types.SimpleNamespace(reset=lambda: None)
    return b


def worker_run(kind):
    """One real process_task with a handler raising `kind`; returns observations."""
    from bert_e import exceptions as ex
    from bert_e.job import Job, handler
    from bert_e.bert_e import BertE
    from bert_e.lib.settings_dict import SettingsDict
    berte = make_berte()

    class Weird(Exception):
        def __str__(self):
            raise ValueError('no message')

    class ProbeJob(Job):
        def __str__(self):
            return 'probe job'

    def handle(job):
        if kind == 'ok':
            return 0
        if kind == 'silent':
            raise ex.NothingToDo()
        if kind == 'template':
            raise ex.BuildFailed(active_options=[], branch='b', build_url='u', commit_url='c',
                                 githost='mock', owner='o', slug='s')
        if kind == 'internal':
            raise ex.UnrecognizedBranchPattern('x')
        if kind == 'jobfailure':
            raise ex.JobFailure('refused')
        if kind == 'runtime':
            raise RuntimeError('boom')
        if kind == 'keyerror':
            raise KeyError('k')
        if kind == 'str_raises':
            raise Weird()
    saved = dict(BertE.__callbacks__) if hasattr(BertE, '__callbacks__') else None
    from bert_e.job import JobDispatcher
    old = JobDispatcher.__callbacks__.get(ProbeJob)
    JobDispatcher.set_callback(ProbeJob, handle)
    try:
        job = ProbeJob.__new__(ProbeJob)
        job.id = 'j'
        job.bert_e = berte
        job.settings = SettingsDict({}, berte.settings)
        from datetime import datetime
        job.start_time = datetime.now()
        job.end_time = None
        job.status = ''
        job.details = ''
        job.type = 'ProbeJob'
        job.user = ''
        berte.task_queue.put(job)
        other = object()
        berte.task_queue.put(other)
        died = None
        try:
            ret = berte.process_task()
        except BaseException as e:          # noqa  the worker thread would die
            died = repr(e)
            ret = None
    finally:
        JobDispatcher.__callbacks__.pop(ProbeJob, None)
    return dict(died=died, done=job.end_time is not None,
                recorded=bool(berte.tasks_done) and berte.tasks_done[0] is job,
                marker_cleared='current job' not in berte.status,
                unfinished=berte.task_queue.unfinished_tasks,
                next_still_queued=(berte.task_queue.qsize() == 1),
                status=job.status)


def expected_status(kind):
    return {'ok': '', 'silent': '', 'template': '', 'internal': 'UnrecognizedBranchPattern',
            'jobfailure': '', 'runtime': 'RuntimeError', 'keyerror': 'KeyError',
            'str_raises': 'Weird'}[kind]


def worker_harness(ctx):
    k = ctx.choose('kind', len(KINDS))
    obs = worker_run(KINDS[k])
    ctx.stats.obligations += 1
    ok = (obs['died'] is None and obs['done'] and obs['recorded'] and obs['marker_cleared']
          and obs['unfinished'] == 1 and obs['next_still_queued'])
    return dict(kind=KINDS[k], ok=ok, obs=obs)


# ---------------------------------------------------------------------------
class SKey(SInt):
    """Symbolic job key that also survives being printed / sliced (commit[:8])."""
    __slots__ = ()

    def __getitem__(self, k):
        return self

    def __str__(self):
        return 'key<%s>' % self.t
    __repr__ = __str__

    def __format__(self, spec):
        return str(self)

    def __hash__(self):
        return 0


class IQueue(queue.Queue):
    """queue.Queue whose `queue` attribute (read by put_job) is an interference point."""
    _env = None

    @property
    def queue(self):
        if self._env:
            self._env('read task_queue.queue')
        return self._q

    @queue.setter
    def queue(self, v):
        self._q = v


def put_harness(npend, twin=False, mutate=None, maxsteps=2):
    def h(ctx):
        from bert_e.bert_e import BertE
        from bert_e.job import PullRequestJob, CommitJob
        import bert_e.bert_e as BE
        common.silence(BE)
        K = lambda n: SKey(z3.Int(n))                        # noqa
        repo = types.SimpleNamespace(full_name='owner/repo')
        state = {'steps': 0, 'calls': 0, 'schedule': []}
        consumed = []            # keys whose evaluation started during the step
        added = []               # keys put by another webhook thread during the step

        class PR:
            def __init__(self, key):
                self._key = key

            @property
            def id(self):
                env('compare pull_request.id')
                return self._key

        bert = make_berte()
        bert.project_repo = repo
        bert.settings['pull_request_base_url'] = 'http://x/{pr_id}'
        bert.settings['commit_base_url'] = 'http://x/{commit_id}'

        def mkjob(key, kind):
            # real constructors: the jobs are complete objects
            if kind == 0:
                j = PullRequestJob(bert_e=bert, pull_request=PR(key))
            else:
                j = CommitJob(bert_e=bert, commit=key)
            j.key = key
            j.kind = kind
            return j
        bert.task_queue = IQueue()
        # pre-state: npend pending jobs with symbolic keys and kinds
        pend = []
        pend_before = []
        for i in range(npend):
            kind = ctx.choose('pkind%d' % i, 2)
            j = mkjob(K('p%d' % i), kind)
            pend.append(j)
            pend_before.append((j.key.t, kind))
            bert.task_queue._q.append(j)
        # ghost: one owed key (accepted event whose evaluation has not started)
        owed_k = z3.Int('owed_k')
        owed_kind = ctx.choose('owed_kind', 2)
        has_owed = z3.Bool('has_owed')

        def pending():
            return [(j.key.t, j.kind) for j in bert.task_queue._q]

        def covered(k, kind, extra=()):
            opts = [k == pk for pk, pkind in pending() if pkind == kind]
            opts += [k == ck for ck, ckind in consumed if ckind == kind]
            opts += list(extra)
            return z3.Or(*opts) if opts else z3.BoolVal(False)
        ctx.assume(z3.Implies(has_owed, covered(owed_k, owed_kind)))

        def env(where):
            state['calls'] += 1
            if state['steps'] >= maxsteps:
                return
            c = ctx.choose('interference', 3)
            if c == 0:
                return
            state['steps'] += 1
            if c == 1:
                state['schedule'].append((state['calls'], 'get', None, None))
                if bert.task_queue._q:
                    j = bert.task_queue._q.popleft()       # worker starts the head job
                    consumed.append((j.key.t, j.kind))
            else:
                kind = ctx.choose('okind', 2)
                j = mkjob(K('other%d' % state['steps']), kind)
                state['schedule'].append((state['calls'], 'put', j.key.t, kind))
                bert.task_queue._q.append(j)              # another thread's put
        bert.task_queue._env = env
        newkind = ctx.choose('newkind', 2)
        newkey = K('new')
        job = mkjob(newkey, newkind)
        running = mkjob(K('running'), ctx.choose('rkind', 2))
        bert.status['current job'] = running
        done = mkjob(K('done'), ctx.choose('dkind', 2))
        bert.tasks_done.appendleft(done)
        import sys
        code = BertE.put_job.__code__

        def tracer(frame, event, arg):
            # interference at every source line of put_job (the property's granularity)
            if frame.f_code is code:
                def local(frame, event, arg):
                    if event == 'line':
                        sys.settrace(None)            # do not trace the engine itself
                        try:
                            env('line %d of put_job' % frame.f_lineno)
                        finally:
                            sys.settrace(tracer)
                    return local
                return local
            return None
        refused = None
        try:
            sys.settrace(tracer)
            try:
                if mutate == 'running':
                    if job == running:
                        pass
                    else:
                        bert.put_job(job)
                else:
                    bert.put_job(job)
            finally:
                sys.settrace(None)
        except (RuntimeError, IndexError, ValueError, KeyError) as e:
            # the webhook thread raised: the request is answered 500, i.e. the
            # event was NOT accepted; jobs accepted earlier must still be owed
            refused = repr(e)
        new_ok = covered(newkey.t, newkind) if refused is None else z3.BoolVal(True)
        old_ok = z3.Implies(has_owed, covered(owed_k, owed_kind))
        cond = z3.And(new_ok, old_ok)
        if twin:
            cond = z3.And(cond, z3.BoolVal(len(bert.task_queue._q) <= npend))
        ctx.stats.obligations += 1
        r, m = ctx.sat_model(z3.Not(cond))
        if r == 'sat':
            return dict(out='dropped', bad=dict(
                refused=refused,
                schedule=[(n, a, None if k is None else model_value(m, k), kd)
                          for (n, a, k, kd) in state['schedule']],
                new=model_value(m, newkey.t), newkind=newkind,
                pending_before=[(model_value(m, k), kd) for k, kd in pend_before],
                pending=[(model_value(m, k), kd) for k, kd in pending()],
                consumed=[(model_value(m, k), kd) for k, kd in consumed],
                running=(model_value(m, running.key.t), running.kind),
                done=(model_value(m, done.key.t), done.kind)))
        return dict(out='kept' if refused is None else 'refused', bad=None)
    return h


def put_concrete(bad):
    """Replay on the real put_job with concrete keys and the SAME interleaving:
    the n-th shared access / source line of put_job triggers the recorded action
    (worker get, or another thread's put)."""
    import sys
    from bert_e.bert_e import BertE
    from bert_e.job import PullRequestJob, CommitJob
    repo = types.SimpleNamespace(full_name='owner/repo')
    bert = make_berte()
    bert.project_repo = repo
    bert.settings['pull_request_base_url'] = 'http://x/{pr_id}'
    bert.settings['commit_base_url'] = 'http://x/{commit_id}'
    calls = [0]
    schedule = {n: (a, k, kd) for (n, a, k, kd) in bad.get('schedule', [])}
    started = []

    class PR:
        def __init__(self, key):
            self._key = key

        @property
        def id(self):
            env()
            return self._key

    def mk(key, kind):
        if kind == 0:
            return PullRequestJob(bert_e=bert, pull_request=PR(key))
        return CommitJob(bert_e=bert, commit='%040d' % key)

    def env():
        calls[0] += 1
        act = schedule.get(calls[0])
        if not act:
            return
        if act[0] == 'get':
            if bert.task_queue._q:
                started.append(bert.task_queue._q.popleft())
        else:
            bert.task_queue._q.append(mk(act[1], act[2]))
    bert.task_queue = IQueue()
    bert.task_queue._env = lambda where: env()
    pend = [mk(k, kd) for k, kd in bad['pending_before']]
    for j in pend:
        bert.task_queue._q.append(j)
    bert.status['current job'] = mk(*bad['running'])
    bert.tasks_done.appendleft(mk(*bad['done']))
    job = mk(bad['new'], bad['newkind'])
    code = BertE.put_job.__code__

    def tracer(frame, event, arg):
        if frame.f_code is code:
            def local(frame, event, arg):
                if event == 'line':
                    env()
                return local
            return local
        return None
    refused = False
    sys.settrace(tracer)
    try:
        try:
            bert.put_job(job)
        except (RuntimeError, IndexError, ValueError, KeyError):
            refused = True
    finally:
        sys.settrace(None)

    def key_of(j):
        return (j.pull_request._key, 0) if isinstance(j, PullRequestJob) else (int(j.commit), 1)
    now = [key_of(j) for j in bert.task_queue._q]
    begun = [key_of(j) for j in started]
    lost = []
    if not refused and (bad['new'], bad['newkind']) not in now + begun:
        lost.append('new')
    for k in bad['pending_before']:
        if tuple(k) not in now + begun:
            lost.append(tuple(k))
    return bool(lost)


def replay(data):
    import bert_e.bert_e as BE
    common.install_common_stubs()
    common.silence(BE)
    if 'history' in data:
        from . import histcheck
        return histcheck.replay('C13', data)
    if data.get('part') == 'readonly':
        from . import c14
        return c14.replay(data)
    if data['part'] == 'webhook-job':
        from . import c17
        return data['label'] in c17.cache_concrete(data['kind'], data['vals'])
    if data['part'] == 'worker':
        obs = worker_run(data['kind'])
        return not (obs['died'] is None and obs['done'] and obs['recorded']
                    and obs['marker_cleared'] and obs['unfinished'] == 1)
    return put_concrete(data['bad'])


def webhook_events_part(rep):
    """An accepted status webhook is followed by an evaluation: every real status handler
    (GitHub status / check-suite, Bitbucket commit status) hands back a CommitJob for every
    event that is not INPROGRESS, whatever the status cache holds (the cache step of C17,
    its job clause reported here)."""
    from . import c17
    import bert_e.server.webhook as wh
    common.silence(wh)
    rep.functions_encoded += ['server.webhook.handle_github_status_event / handle_github_check_suite_event / '
                              'handle_bitbucket_repo_event (a job for every accepted status event)']
    for kind in ('github_status', 'github_check_suite', 'bitbucket_event'):
        results, st = explore(c17.cache_harness(kind))
        rep.add_stats(st, 'status webhook -> job (%s)' % kind)
        for _, r in results:
            if r['bad'] is not None and 'CommitJob produced' in r['label']:
                data = dict(part='webhook-job', kind=kind, vals=r['bad'], label=r['label'])
                rep.cexs.append(Cex('C13', 'an accepted status webhook is dropped (%s)' % kind, data,
                                    r['label'] in c17.cache_concrete(kind, r['bad']),
                                    '%s with cache / event %r' % (r['label'], r['bad'])))
                break


def check(rep):
    rep.stubs += common.install_common_stubs()
    import bert_e.bert_e as BE
    common.silence(BE)
    rep.stubs += ['job handler -> raises the chosen exception kind',
                  'task_queue.queue / pull_request.id reads -> interference points']
    rep.functions_encoded += ['bert_e.BertE.process_task', 'bert_e.BertE.process',
                              'bert_e.BertE._process_error', 'bert_e.BertE.put_job',
                              'job.PullRequestJob.__eq__', 'job.CommitJob.__eq__',
                              'job.JobDispatcher.dispatch', 'job.Job.complete']
    npend = 2 if rep.tier == 'quick' else 3
    rep.bounds = dict(pending_jobs='0..%d' % npend, interfering_operations_per_step='1 (quick) / 2 (thorough)', interference_points='every source line of put_job + every shared access',
                      job_classes=2, exception_kinds=KINDS)
    rep.assumptions += ['interference happens at the shared accesses of put_job (reading '
                        'task_queue.queue, each element comparison), not inside a C-level '
                        'deque scan', 'a job is identified by (class, key)']
    rep.outside_claim += ['bytecode-level interleavings inside deque.__contains__ (a concurrent '
                          'popleft raises RuntimeError in the webhook thread: the request is then '
                          'answered 500, i.e. not accepted)', 'Flask threading']
    results, st = explore(worker_harness)
    rep.add_stats(st, 'worker robustness')
    for _, r in results:
        if not r['ok']:
            data = dict(part='worker', kind=r['kind'])
            rep.cexs.append(Cex('C13', 'worker: job raising %s is not recorded cleanly' % r['kind'],
                                data, replay(data), '%r' % r['obs']))
        elif r['obs']['status'] != expected_status(r['kind']):
            rep.error('job.status for %s is %r' % (r['kind'], r['obs']['status']))
        else:
            rep.validated += 1
    rep.sample(dict(part='worker', observed=results[0][1]))
    maxsteps = 1 if rep.tier == 'quick' else 2
    for n in range(0, npend + 1):
        res, st = common.explore_parallel(put_harness(n, maxsteps=maxsteps), split_depth=6)
        rep.add_stats(st, 'put_job step, %d pending' % n)
        seen = False
        outs = set(r['out'] for _, r in res)
        if n >= 1 and 'kept' not in outs:
            rep.error('vacuity: put_job step never keeps the job')
        for _, r in res:
            if r['bad'] and not seen:
                seen = True
                data = dict(part='put', bad=r['bad'])
                rep.cexs.append(Cex('C13', 'put_job drops a job although no equal job is pending',
                                    data, replay(data), '%r' % r['bad']))
    rep.sample(dict(part='put_job', pending=npend, note='keys symbolic, interference at each shared access'))
    tw, st = common.explore_parallel(put_harness(1, twin=True, maxsteps=1), split_depth=5)
    if not any(r['bad'] for _, r in tw):
        rep.error('reachability twin not refuted')
    mt, st = common.explore_parallel(put_harness(1, mutate='running', maxsteps=1), split_depth=5)
    if not any(r['bad'] for _, r in mt):
        rep.error('mutation twin (running job treated as duplicate) not refuted')
    rep.add_part('twins', paths=st.paths)
    webhook_events_part(rep)
    from . import histcheck
    histcheck.check(rep, 'C13')
    # the order in which pending jobs are evaluated is the order of the task queue: no request that
    # only reads (status page, job listings) may change it (shared with C14)
    from . import c14
    c14.readonly_part(rep, 'C13')
