"""C03 on the symbolic repository (see gitprops.py)."""
from . import gitprops, histcheck


def check(rep):
    gitprops.run(rep, 'C03')
    histcheck.check(rep, 'C03')
    # queues with hotfix / stabilization / major branches (concrete graphs of C05, symbolic statuses)
    from . import c05
    c05.c03_part(rep)


def replay(data):
    if 'history' in data:
        return histcheck.replay('C03', data)
    if data.get('kind') == 'c05-structures':
        from . import c05
        return c05.c03_replay(data)
    return gitprops.replay(data)
