"""C03 on the symbolic repository (see gitprops.py)."""
from . import gitprops


def check(rep):
    gitprops.run(rep, 'C03')


replay = gitprops.replay
