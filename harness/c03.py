"""C03 on the symbolic repository (see gitprops.py)."""
from . import gitprops, histcheck


def check(rep):
    gitprops.run(rep, 'C03')
    histcheck.check(rep, 'C03')


def replay(data):
    if 'history' in data:
        return histcheck.replay('C03', data)
    return gitprops.replay(data)
