"""C16 - the robot's credentials never leak into logs, comments or job reports.

(1) CrossHair lemma on the masking primitive (crosshair/c16_mask.py).
(2) Structural check: the mask BertE.__init__ passes to the git repository and
    the password embedded in the clone URL by the git hosts are the same pure
    function applied to the same password (read from the live code objects),
    plus a concrete differential on URL-special / shell-special / non-ASCII
    passwords.
(3) symx over the control flow of the real simplecmd.cmd/_do_cmd with a Popen
    stub (mode: success / non-zero exit / timeout / OSError; symbolic return
    code; str or bytes output; DEBUG or INFO), sinks = returned output,
    str/repr of the exception, the rendered traceback chain, all log records.
(4) symx fault placement over the real lib.git Repository/Branch methods inside
    the real BertE.process_task: the k-th git command fails or hangs (symbolic
    k and mode); sinks additionally = job.status, job.details, Job.as_json().
(5) GitHub client flows (password and App authentication) through a scripted
    HTTP session with symbolic status codes; sinks = stdout, logs, exceptions.
(6) c16wire.py: the real GitHub / Bitbucket clients on their real BertESession,
    a host adapter that fails at a chosen exchange (transport or HTTP fault).
"""
import ast
import contextlib
import inspect
import io
import logging
import os
import subprocess
import traceback
import types
import z3

from symx.core import SBool, SInt, explore, model_value, HarnessError, Ctx
from symx.report import Cex
from . import common

PASSWORDS = ['s3cr/t p+w', 'p@ss:w%rd', "q'u\"o;t`e$", 'päss✓wörd', 'a&b=c?d#e', 'plain']
TOKEN = 'ghs_S3CR3TTOKENxyz'
JWT = 'eyJSECRETJWT.abc.def'


class Capture(logging.Handler):
    def __init__(self):
        super().__init__(level=logging.DEBUG)
        self.lines = []
        self.formatter = logging.Formatter('%(name)s %(levelname)s %(message)s')

    def emit(self, record):
        try:
            self.lines.append(self.format(record))
        except Exception as e:             # a formatting failure is not a leak
            self.lines.append('FORMAT-ERROR %r' % e)


@contextlib.contextmanager
def capture(level):
    root = logging.getLogger()
    h = Capture()
    old_level = root.level
    old_handlers = list(root.handlers)
    root.handlers = [h]
    root.setLevel(level)
    saved = {}
    for name in ('bert_e.lib.simplecmd', 'bert_e.lib.git', 'bert_e.bert_e', 'bert_e.git_host.github'):
        lg = logging.getLogger(name)
        saved[name] = (lg.level, lg.disabled, lg.propagate)
        lg.setLevel(logging.NOTSET)
        lg.disabled = False
        lg.propagate = True
    out = io.StringIO()
    try:
        with contextlib.redirect_stdout(out):
            yield h, out
    finally:
        root.handlers = old_handlers
        root.setLevel(old_level)
        for name, (lv, dis, prop) in saved.items():
            lg = logging.getLogger(name)
            lg.setLevel(lv)
            lg.disabled = dis
            lg.propagate = prop


def exc_text(e):
    return '\n'.join([str(e), repr(e)] +
                     traceback.format_exception(type(e), e, e.__traceback__))


# ---------------------------------------------------------------------------
# (3) simplecmd control flow
class FakeProc:
    pid = 4242

    def __init__(self, command, out, rc, mode):
        self.command, self.out, self.returncode, self.mode = command, out, rc, mode

    def __enter__(self):
        return self

    def __exit__(self, *a):
        return False

    def communicate(self, timeout=None):
        if self.mode == 'timeout' and timeout is not None:
            raise subprocess.TimeoutExpired(self.command, timeout, output=self.out)
        if self.mode == 'oserror':
            raise OSError(2, 'No such file or directory: %r' % self.command)
        if self.mode == 'undecodable':
            # git relays bytes that are not valid UTF-8 (a server message in a legacy
            # encoding) next to the URL: in text mode the decoding inside communicate()
            # fails, and the exception object carries the raw output
            raw = (self.out.encode() if isinstance(self.out, str) else self.out) + b' refus\xe9'
            if isinstance(self.out, str):
                raise UnicodeDecodeError('utf-8', raw, len(raw) - 1, len(raw), 'invalid continuation byte')
            return raw, None
        return self.out, None


@contextlib.contextmanager
def fake_popen(decide_mode):
    from bert_e.lib import simplecmd
    orig = (subprocess.Popen, simplecmd.os.killpg, simplecmd.os.getpgid)

    def popen(command, **kw):
        mode, rc, text = decide_mode(command, kw)
        out = text if kw.get('universal_newlines', True) else text.encode()
        return FakeProc(command, out, rc, mode)
    subprocess.Popen = popen
    simplecmd.os.killpg = lambda *a: None
    simplecmd.os.getpgid = lambda p: 1
    try:
        yield
    finally:
        subprocess.Popen, simplecmd.os.killpg, simplecmd.os.getpgid = orig


MODES = ['ok', 'fail', 'timeout', 'oserror', 'undecodable']


def simplecmd_run(mode, rc, binary, debug, secret):
    """Concrete or symbolic (rc SInt) run of the real cmd(); returns leaks."""
    from bert_e.lib import simplecmd
    command = 'git clone https://bot:%s@host/owner/repo.git' % secret
    git_says = "fatal: unable to access 'https://bot:%s@host/owner/repo.git/': error" % secret
    leaks = []
    with capture(logging.DEBUG if debug else logging.INFO) as (h, out):
        with fake_popen(lambda c, kw: (mode, rc, git_says)):
            try:
                res = simplecmd.cmd(command, mask_pwd=secret, universal_newlines=not binary,
                                    cwd='/')
                if (secret.encode() if binary else secret) in res:
                    leaks.append('returned output')
            except simplecmd.CommandError as e:
                if secret in exc_text(e):
                    leaks.append('exception text / rendered traceback chain')
                try:
                    raise RuntimeError('job failed') from e
                except RuntimeError:
                    logging.getLogger('bert_e.bert_e').exception('Job finished with an error.')
    if any(secret in line for line in h.lines):
        leaks.append('log record')
    if secret in out.getvalue():
        leaks.append('stdout')
    return leaks


def simplecmd_harness(ctx):
    mode = MODES[ctx.choose('mode', len(MODES))]
    binary = ctx.decide(z3.Bool('binary'))
    debug = ctx.decide(z3.Bool('debug'))
    from symx.tint import TInt
    rc = TInt(z3.Int('returncode'))
    from urllib.parse import quote_plus
    secret = quote_plus(PASSWORDS[0])
    leaks = simplecmd_run(mode, rc, binary, debug, secret)
    ctx.stats.obligations += 1
    m = ctx.sat_model()[1]
    return dict(mode=mode, binary=binary, debug=debug, rc=model_value(m, rc.t), leaks=leaks)


# ---------------------------------------------------------------------------
# (4) fault placement over lib.git inside process_task
GIT_STEPS = 12


def git_job_run(fail_at, mode, debug, password, job_kind):
    """Real Repository/Branch calls inside a real process_task; the fail_at-th
    git command fails in `mode`."""
    from urllib.parse import quote_plus
    from bert_e.lib import git as G
    from bert_e.job import Job, JobDispatcher
    from bert_e import exceptions as ex
    from .c13 import make_berte
    from bert_e.lib.settings_dict import SettingsDict
    from datetime import datetime
    secret = quote_plus(password)
    url = 'https://bot:%s@github.com/owner/repo.git' % secret
    count = [0]

    def decide(command, kw):
        count[0] += 1
        says = "remote: Invalid username or password.\nfatal: Authentication failed for '%s/'" % url
        if count[0] == fail_at:
            return mode, 128, says
        return 'ok', 0, 'ok %s\n' % url

    class GitJob(Job):
        def __str__(self):
            return 'git job'

    def handle(job):
        repo = G.Repository(url, mask_pwd=secret)
        try:
            os.makedirs(os.path.join(os.path.expanduser('~'), '.bert-e'), exist_ok=True)
            repo.clone()
            repo.config('user.name', 'robot')
            b = G.Branch(repo, 'w/5.1/feature/x')
            d = G.Branch(repo, 'development/5.1')
            b.create(d, do_push=False)
            b.merge(d)
            b.includes_commit('abc')
            b.get_latest_commit()
            list(b.get_commit_diff(d))
            b.differs(d)
            repo.push("'w/5.1/feature/x'")
            repo.push_all(prune=True)
            b.reset()
            repo.remote_branch_exists('development/5.1', True)
            b.remove(do_push=True)
            if job_kind == 'jobfailure':
                raise ex.JobFailure('Unable to push %s' % url.replace(secret, '***'))
        finally:
            repo.delete()
    berte = make_berte()
    JobDispatcher.set_callback(GitJob, handle)
    leaks = []
    try:
        job = GitJob.__new__(GitJob)
        job.id = 'j'
        job.bert_e = berte
        job.settings = SettingsDict({}, berte.settings)
        job.start_time = datetime.now()
        job.end_time = None
        job.status = job.details = ''
        job.type = 'GitJob'
        job.user = ''
        berte.task_queue.put(job)
        with capture(logging.DEBUG if debug else logging.INFO) as (h, out):
            with fake_popen(decide):
                try:
                    berte.process_task()
                except Exception as e:
                    if secret in exc_text(e) or password in exc_text(e):
                        leaks.append('exception escaping process_task')
        for sink, text in (('job.details', str(job.details)), ('job.status', str(job.status)),
                           ('log record', '\n'.join(h.lines)), ('stdout', out.getvalue())):
            if secret in text or password in text:
                leaks.append(sink)
        try:
            js = job.as_json()
            if secret in js or password in js:
                leaks.append('Job.as_json()')
        except Exception:
            pass
    finally:
        JobDispatcher.__callbacks__.pop(GitJob, None)
    return leaks, count[0]


def git_harness(password):
    def h(ctx):
        k = ctx.choose('fail_at', GIT_STEPS + 1)          # 0: no failure
        mode = MODES[1 + ctx.choose('mode', len(MODES) - 1)] if k else 'ok'
        debug = ctx.decide(z3.Bool('debug'))
        kind = 'jobfailure' if ctx.decide(z3.Bool('jobfailure')) else 'plain'
        leaks, n = git_job_run(k, mode, debug, password, kind)
        ctx.stats.obligations += 1
        return dict(fail_at=k, mode=mode, debug=debug, kind=kind, leaks=leaks, ncmd=n)
    return h


# ---------------------------------------------------------------------------
# (5) GitHub client flows
class Resp:
    def __init__(self, status, payload, url):
        self.status_code = status
        self._payload = payload
        self.url = url
        self.text = __import__('json').dumps(payload)
        self.headers = {}

    def json(self):
        return self._payload

    def raise_for_status(self):
        from requests import HTTPError
        code = self.status_code
        if isinstance(code, SInt):
            bad = Ctx.cur.decide(code.t >= 400)
        else:
            bad = code >= 400
        if bad:
            raise HTTPError('%s Client Error for url: %s' % ('4xx', self.url), response=self)


def github_run(app, status_token, status_get):
    from bert_e.git_host import github as gh
    leaks = []
    with capture(logging.DEBUG) as (h, out):
        class Session:
            headers = {}

            def post(self, url, headers=None, **kw):
                return Resp(status_token, {'token': TOKEN}, url)

            def get(self, url, **kw):
                return Resp(status_get, {'login': 'bot'}, url)
        orig_session = gh.base.BertESession
        orig_jwk = gh.jwk_from_pem
        gh.base.BertESession = lambda: Session()
        gh.jwk_from_pem = lambda pem: 'KEYOBJ'
        orig_jwt = gh.Client._get_jwt
        gh.Client._get_jwt = lambda self: JWT
        try:
            try:
                gh.Client._get_installation_token.cache_clear()
            except AttributeError:
                pass
            try:
                if app:
                    c = gh.Client('bot', 'unused', 'bot@x', app_id=1, installation_id=2,
                                  private_key='PEM')
                else:
                    c = gh.Client('bot', PASSWORDS[0], 'bot@x')
                c.get('/user')
            except Exception as e:
                text = exc_text(e)
                for name, sec in (('token', TOKEN), ('jwt', JWT), ('password', PASSWORDS[0])):
                    if sec in text:
                        leaks.append('exception text (%s)' % name)
                try:
                    raise RuntimeError('job failed') from e
                except RuntimeError:
                    logging.getLogger('bert_e.bert_e').exception('failed')
        finally:
            gh.base.BertESession = orig_session
            gh.jwk_from_pem = orig_jwk
            gh.Client._get_jwt = orig_jwt
    for name, sec in (('token', TOKEN), ('jwt', JWT), ('password', PASSWORDS[0])):
        if sec in out.getvalue():
            leaks.append('stdout (%s)' % name)
        if any(sec in line for line in h.lines):
            leaks.append('log record (%s)' % name)
    return leaks


def github_harness(ctx):
    app = ctx.decide(z3.Bool('app_auth'))
    st1 = SInt(z3.Int('status_token'))
    st2 = SInt(z3.Int('status_get'))
    ctx.assume(z3.And(st1.t >= 200, st1.t < 600, st2.t >= 200, st2.t < 600))
    leaks = github_run(app, st1, st2)
    m = ctx.sat_model()[1]
    ctx.stats.obligations += 1
    return dict(app=app, status_token=model_value(m, st1.t), status_get=model_value(m, st2.t),
                leaks=leaks)


# ---------------------------------------------------------------------------
def structural(rep):
    """mask == URL form: same function object applied to the same password."""
    import bert_e.bert_e as BE
    from bert_e.git_host import github, bitbucket
    from urllib.parse import quote_plus
    src = inspect.getsource(BE.BertE.__init__)
    tree = ast.parse('class X:\n' + src)
    mask_fn = None
    for node in ast.walk(tree):
        if isinstance(node, ast.keyword) and node.arg == 'mask_pwd':
            v = node.value
            if isinstance(v, ast.Call) and isinstance(v.func, ast.Name):
                mask_fn = getattr(BE, v.func.id)
                arg = ast.unparse(v.args[0])
    if mask_fn is None:
        rep.error('BertE.__init__: mask_pwd expression not recognised')
        return
    problems = []
    for mod, fn in ((github, github.Repository.git_url.fget), (bitbucket, bitbucket.Repository.get_git_url)):
        t = ast.parse('class X:\n' + inspect.getsource(fn))
        used = set()
        for node in ast.walk(t):
            if isinstance(node, ast.Call) and isinstance(node.func, ast.Name) and node.args and \
                    'password' in ast.unparse(node.args[0]):
                used.add(getattr(mod, node.func.id))
        if used != {mask_fn}:
            problems.append('%s encodes the password with %s, mask uses %s'
                            % (mod.__name__, [f.__name__ for f in used], mask_fn.__name__))
    rep.transitions += 2
    rep.add_part('structural mask == URL form', mask_function=mask_fn.__name__, argument=arg)
    # concrete differential on special passwords
    for pwd in PASSWORDS:
        g = github.Repository.__new__(github.Repository)
        g.client = types.SimpleNamespace(login='bot', password=pwd)
        g.data = {'owner': {'login': 'o'}, 'name': 'r'}
        b = bitbucket.Repository.__new__(bitbucket.Repository)
        b.client = types.SimpleNamespace(auth=types.SimpleNamespace(username='bot', password=pwd))
        b._json_data = {'owner': 'o', 'repo_slug': 'r'}
        for url in (g.git_url, b.get_git_url()):
            if ':' + mask_fn(pwd) + '@' not in url:
                problems.append('password %r: mask %r does not occur in %r' % (pwd, mask_fn(pwd), url))
            rep.validated += 1
    for p in problems:
        rep.cexs.append(Cex('C16', 'mask differs from the password form in the clone URL',
                            dict(kind='structural', problem=p), True, p))


def crosshair_lemma(rep):
    here = os.path.dirname(os.path.dirname(os.path.abspath(__file__)))
    f = os.path.join(here, 'crosshair', 'c16_mask.py')
    py = os.path.join(here, '.venv', 'bin', 'python')
    p = subprocess.run([py, '-m', 'crosshair', 'check', '--report_all',
                        '--per_condition_timeout', '60', f],
                       stdout=subprocess.PIPE, stderr=subprocess.STDOUT, text=True,
                       env=dict(os.environ, PYTHONPATH=here), timeout=400)
    conf = sum('Confirmed over all paths' in l for l in p.stdout.splitlines())
    bad = [l for l in p.stdout.splitlines() if 'error:' in l]
    rep.add_part('masking lemma (CrossHair)', confirmed=conf, refuted=len(bad))
    rep.obligations += conf
    for l in bad:
        rep.cexs.append(Cex('C16', 'masking primitive leaves an occurrence', dict(kind='lemma', line=l),
                            True, l[-300:]))
    if conf == 0 and not bad:
        rep.extra['crosshair_masking_lemma'] = 'inconclusive: ' + p.stdout[-200:]
        rep.error('CrossHair did not decide the masking lemma')


def replay(data):
    common.install_common_stubs()
    k = data.get('kind')
    if k == 'simplecmd':
        from urllib.parse import quote_plus
        return bool(simplecmd_run(data['mode'], data['rc'], data['binary'], data['debug'],
                                  quote_plus(PASSWORDS[0])))
    if k == 'git':
        return bool(git_job_run(data['fail_at'], data['mode'], data['debug'], data['password'],
                                data['job_kind'])[0])
    if k == 'github':
        return bool(github_run(data['app'], data['status_token'], data['status_get']))
    if k == 'wire':
        from . import c16wire
        return c16wire.replay(data)
    return True


def check(rep):
    rep.stubs += common.install_common_stubs()
    rep.stubs += ['subprocess.Popen -> stub process (success / exit code / timeout / OSError) that '
                  'prints the remote URL with credentials as git does',
                  'github: BertESession -> scripted session with symbolic status codes; '
                  '_get_jwt -> sentinel (RSA signing is outside any solver)']
    rep.functions_encoded += ['lib.simplecmd.cmd/_do_cmd', 'lib.git.Repository.cmd/clone/config/push/'
                              'push_all/checkout/remote_branch_exists',
                              'lib.git.Branch.create/merge/includes_commit/get_latest_commit/'
                              'get_commit_diff/differs/reset/remove', 'bert_e.BertE.process_task/process',
                              'job.Job.as_json', 'github.Client.__init__/headers/'
                              '_get_installation_token/get/_get',
                              'github.Repository.git_url', 'bitbucket.Repository.get_git_url']
    rep.bounds = dict(git_commands_per_job=GIT_STEPS, passwords=PASSWORDS,
                      failure_modes=MODES[1:], log_levels=['DEBUG', 'INFO'])
    rep.assumptions += ['bytes.replace has the semantics of str.replace (the CrossHair lemma is on str)',
                        'the secret is what quote_plus(password) produces: it contains no "*"']
    rep.outside_claim += ['pull-request comment bodies over explored histories',
                          'what the requests library itself logs', 'the JWT signature']
    hostdir = os.environ.get('HOME')
    # (3)
    results, st = explore(simplecmd_harness)
    rep.add_stats(st, 'simplecmd control flow')
    seen = set()
    for _, r in results:
        if r['leaks']:
            sig = 'simplecmd %s: secret in %s' % (r['mode'], ', '.join(sorted(set(r['leaks']))))
            if sig in seen:
                continue
            seen.add(sig)
            data = dict(kind='simplecmd', mode=r['mode'], rc=r['rc'], binary=r['binary'], debug=r['debug'])
            rep.cexs.append(Cex('C16', sig, data, replay(data), '%r' % r))
        else:
            rep.validated += 1
    if len(set(r['mode'] for _, r in results)) != len(MODES):
        rep.error('vacuity: simplecmd modes reached %s' % set(r['mode'] for _, r in results))
    rep.sample(dict(part='simplecmd', case=results[0][1]))
    # (4)
    pws = PASSWORDS[:2] if rep.tier == 'quick' else PASSWORDS
    def run_pw(pw):
        res, st = explore(git_harness(pw))
        return pw, res, st.as_dict()
    for pw, res, st in common.pmap(run_pw, pws):
        rep.add_stats(st, 'git fault placement, password %r' % pw)
        seen = set()
        maxn = max(r['ncmd'] for _, r in res)
        if maxn < GIT_STEPS:
            rep.error('git job issued only %d commands (< %d fault positions)' % (maxn, GIT_STEPS))
        for _, r in res:
            if r['leaks']:
                sig = 'git command failure (%s): secret in %s' % (r['mode'], ', '.join(sorted(set(r['leaks']))))
                if sig in seen:
                    continue
                seen.add(sig)
                data = dict(kind='git', fail_at=r['fail_at'], mode=r['mode'], debug=r['debug'],
                            password=pw, job_kind=r['kind'])
                rep.cexs.append(Cex('C16', sig, data, replay(data), 'password %r: %r' % (pw, r)))
            else:
                rep.validated += 1
    # (5)
    results, st = explore(github_harness)
    rep.add_stats(st, 'github client flows')
    seen = set()
    for _, r in results:
        if r['leaks']:
            sig = 'github %s flow: %s' % ('app' if r['app'] else 'password', ', '.join(sorted(set(r['leaks']))))
            if sig in seen:
                continue
            seen.add(sig)
            data = dict(kind='github', app=r['app'], status_token=r['status_token'], status_get=r['status_get'])
            rep.cexs.append(Cex('C16', sig, data, replay(data), '%r' % r))
        else:
            rep.validated += 1
    # (6) the real clients on the real session, failing on the wire
    from . import c16wire
    c16wire.part(rep)
    structural(rep)
    crosshair_lemma(rep)
