"""C17 - CI results are aggregated soundly and a green verdict is never downgraded.

(a) Real github.AggregatedWorkflowRuns.state (+ remove_unwanted_workflows,
    branch_state, is_pending, is_queued) on a list of n symbolic runs.
(b) The green-verdict cache as an inductive step: from an arbitrary cache
    content, one real webhook handler or one real poll (github / bitbucket
    Repository.get_build_status, github get_commit_status) with a symbolic
    host answer.
(c) Real LRUCache (size 2) under a symbolic sequence of get/set operations,
    against a functional reference model written in z3.
"""
import types
import z3

from symx.core import (SBool, SInt, SEnum, explore, model_value, HarnessError,
                       PathAbort)
from symx.report import Cex
from . import common

EVENTS = ['push', 'pull_request', 'workflow_dispatch']
STATUS = ['completed', 'in_progress', 'queued', 'pending']
CONCL = ['success', 'failure', 'cancelled', None]
RANK = {'success': 4, None: 3, 'failure': 2, 'cancelled': 1}
STATES = ['SUCCESSFUL', 'FAILED', 'INPROGRESS', 'NOTSTARTED', 'STOPPED']
NWF = 3          # workflow ids


# ---------------------------------------------------------------------------
# (a) aggregation
class SBranchName(SInt):
    """Symbolic branch name: compared for equality / order symbolically; when the
    code needs the text (str(), sort key) the value is concretised by forking."""
    __slots__ = ()

    def __str__(self):
        from symx.core import Ctx
        return 'branch%d' % Ctx.cur.concretize_int(self.t, 0, 1)
    __repr__ = __str__

    def __hash__(self):
        return 0


def agg_vars(n):
    return dict(ev=[z3.Int('ev%d' % i) for i in range(n)],
                st=[z3.Int('st%d' % i) for i in range(n)],
                co=[z3.Int('co%d' % i) for i in range(n)],
                wf=[z3.Int('wf%d' % i) for i in range(n)],
                br=[z3.Int('br%d' % i) for i in range(n)])


def agg_pre(v, n):
    c = []
    for i in range(n):
        c += [v['ev'][i] >= 0, v['ev'][i] < 3, v['st'][i] >= 0, v['st'][i] < 4,
              v['co'][i] >= 0, v['co'][i] < 4, v['wf'][i] >= 0, v['wf'][i] < NWF,
              v['br'][i] >= 0, v['br'][i] < 2,
              # GitHub contract: a run has a conclusion iff it is completed
              (v['co'][i] != 3) == (v['st'][i] == 0)]
    # symmetry reduction: workflow ids and branches are only compared for
    # equality (dict key / groupby key), so label them in order of appearance
    for i in range(n):
        prev = [v['wf'][j] for j in range(i)]
        mx = z3.IntVal(-1)
        for t in prev:
            mx = z3.If(t > mx, t, mx)
        c.append(v['wf'][i] <= mx + 1)
        prevb = [v['br'][j] for j in range(i)]
        mb = z3.IntVal(-1)
        for t in prevb:
            mb = z3.If(t > mb, t, mb)
        c.append(v['br'][i] <= mb + 1)
    return z3.And(*c) if c else z3.BoolVal(True)


def agg_oracle_success_possible(v, n):
    """The statement's necessary condition for SUCCESSFUL: after dropping
    workflow_dispatch runs and keeping one best-ranked run per workflow id (any
    best one when several tie), some branch has >= 1 kept run and all kept runs
    on it completed with success."""
    rank = [z3.If(v['co'][i] == 0, 4, z3.If(v['co'][i] == 3, 3, z3.If(v['co'][i] == 1, 2, 1)))
            for i in range(n)]
    nd = [v['ev'][i] != 2 for i in range(n)]

    def best(i):
        return z3.And(nd[i], *[z3.Or(z3.Not(nd[j]), v['wf'][j] != v['wf'][i], rank[j] <= rank[i])
                               for j in range(n) if j != i])
    good = lambda i: z3.And(v['co'][i] == 0, v['st'][i] == 0)     # noqa
    # choice: for each workflow id w, a kept index c_w (or none if no run)
    import itertools
    opts = []
    idx = list(range(n)) + [None]
    for choice in itertools.product(idx, repeat=NWF):
        kept = [c for c in choice if c is not None]
        if not kept or len(set(kept)) != len(kept):
            continue
        conds = []
        for w, c in enumerate(choice):
            if c is None:
                conds.append(z3.And(*[z3.Or(z3.Not(nd[j]), v['wf'][j] != w)
                                      for j in range(n)]) if n else z3.BoolVal(True))
            else:
                conds.append(z3.And(best(c), v['wf'][c] == w))
        br_ok = []
        for b in (0, 1):
            br_ok.append(z3.And(z3.Or(*[v['br'][c] == b for c in kept]),
                                *[z3.Implies(v['br'][c] == b, good(c)) for c in kept]))
        opts.append(z3.And(z3.And(*conds), z3.Or(*br_ok)))
    return z3.Or(*opts) if opts else z3.BoolVal(False)


def make_runs(vals, symbolic, ctx=None):
    runs = []
    n = len(vals['ev'])
    for i in range(n):
        if symbolic:
            # `conclusion is not None` and dict keys need concrete objects:
            # fork over conclusion and workflow id, keep the rest symbolic
            co = CONCL[ctx.concretize_int(vals['co'][i], 0, 3)]
            wf = ctx.concretize_int(vals['wf'][i], 0, NWF - 1)
            run = dict(event=SEnum(vals['ev'][i], EVENTS), status=SEnum(vals['st'][i], STATUS),
                       conclusion=co, workflow_id=wf, head_branch=SBranchName(vals['br'][i]))
        else:
            run = dict(event=EVENTS[vals['ev'][i]], status=STATUS[vals['st'][i]],
                       conclusion=CONCL[vals['co'][i]], workflow_id=vals['wf'][i],
                       head_branch='branch%d' % vals['br'][i])
        run.update(id=i, head_sha='c' * 40, repository=dict(
            full_name='o/r', owner=dict(login='o'), name='r'))
        runs.append(run)
    return runs


def run_state(runs):
    from bert_e.git_host.github import AggregatedWorkflowRuns
    a = AggregatedWorkflowRuns.__new__(AggregatedWorkflowRuns)
    a._workflow_runs = list(runs)
    a.data = {'workflow_runs': runs, 'total_count': len(runs)}
    return a.state


def agg_harness(n, twin=False):
    def h(ctx):
        v = agg_vars(n)
        ctx.assume(agg_pre(v, n))
        st = run_state(make_runs(v, True, ctx))
        ok = agg_oracle_success_possible(v, n)
        if twin:
            ok = z3.BoolVal(False)
        ctx.stats.obligations += 1
        allv = {'%s%d' % (k, i): t for k, ts in v.items() for i, t in enumerate(ts)}
        if st == 'SUCCESSFUL':
            r, m = ctx.sat_model(z3.Not(ok))
            if r == 'sat':
                return dict(state=st, bad={k: model_value(m, t) for k, t in allv.items()}, wit=None)
        elif st not in ('FAILED', 'INPROGRESS', 'NOTSTARTED'):
            raise HarnessError('unexpected state %r' % (st,))
        if n == 0 and st != 'NOTSTARTED':
            return dict(state=st, bad={}, wit=None)
        r2, m2 = ctx.sat_model()
        return dict(state=st, bad=None,
                    wit={k: model_value(m2, t) for k, t in allv.items()})
    return h


def agg_concrete(n, vals):
    v = {k: [vals['%s%d' % (k, i)] for i in range(n)] for k in ('ev', 'st', 'co', 'wf', 'br')}
    return run_state(make_runs(v, False))


def agg_expected_possible(n, vals):
    v = agg_vars(n)
    subs = [(t, z3.IntVal(vals['%s%d' % (k, i)])) for k, ts in v.items() for i, t in enumerate(ts)]
    return z3.is_true(z3.simplify(z3.substitute(agg_oracle_success_possible(v, n), *subs)))


# ---------------------------------------------------------------------------
# (b) green-verdict cache, inductive step
COMMITS = ['c0ffee0', 'c0ffee1']
KEYS = ['pre-merge', 'github_actions']


class St:
    """A cached / reported build status object (stub of Status / BuildStatus)."""

    def __init__(self, state, key, origin):
        self.state = state
        self.key = key
        self.origin = origin
        self.url = 'http://x'
        self.description = ''


def cache_step(ctx, kind, vals, symbolic):
    """Build the pre-state cache, run one real step, return (answer, job?, pre, post)."""
    from bert_e.git_host import cache
    from bert_e.lib.lru_cache import LRUCache
    import bert_e.server.webhook as wh
    import bert_e.git_host.github as gh
    import bert_e.git_host.bitbucket as bb
    from requests import HTTPError
    E = (lambda t: SEnum(t, STATES)) if symbolic else (lambda t: STATES[t])
    cache.BUILD_STATUS_CACHE.clear()
    pre = {}
    for ci, c in enumerate(COMMITS):
        for ki, k in enumerate(KEYS):
            present = vals['present_%d_%d' % (ci, ki)]
            if symbolic:
                present = ctx.decide(present)
            if present:
                obj = St(E(vals['cached_%d_%d' % (ci, ki)]), k, 'pre')
                cache.BUILD_STATUS_CACHE[k].set(c, obj)
                pre[(c, k)] = obj
    tc, tk = COMMITS[0], KEYS[0]           # the step targets (commit 0, key 0)
    key1 = vals.get('poll_key1', False)
    if kind in ('github_poll', 'github_status', 'github_check_suite', 'bitbucket_event'):
        # the polled key / the key the status event was reported under is either the configured
        # build key or another one (github_actions: listed last by the host)
        if symbolic:
            key1 = ctx.decide(key1)
        if key1:
            tk = KEYS[1]
    rep = E(vals['reported'])              # what the event / host says for the target
    rep_other = E(vals['reported_other'])  # host's report for the other key
    has_other = vals['host_has_other']
    notfound = vals['host_404']
    has_target = vals['host_has_target']
    if symbolic:
        has_other = ctx.decide(has_other)
        notfound = ctx.decide(notfound)
        has_target = ctx.decide(has_target)
    from .gitflow import make_berte
    berte = make_berte(None, types.SimpleNamespace(full_name='o/r'))
    berte.client = None
    answer = None
    job = None
    saved = {}
    try:
        if kind in ('github_status', 'github_check_suite'):
            ev = types.SimpleNamespace(status=St(rep, tk, 'event'), commit=tc)
            name = 'StatusEvent' if kind == 'github_status' else 'CheckSuiteEvent'
            saved[(gh, name)] = getattr(gh, name)
            setattr(gh, name, lambda client=None, **kw: ev)
            fn = wh.handle_github_status_event if kind == 'github_status' \
                else wh.handle_github_check_suite_event
            job = fn(berte, {})
        elif kind == 'bitbucket_event':
            saved[(wh, 'BuildStatus')] = wh.BuildStatus
            wh.BuildStatus = lambda client, **kw: St(rep, tk, 'event')
            data = {'commit_status': {'state': rep, 'key': tk, 'url': 'u',
                                      'links': {'commit': {'href': 'http://x/' + tc}}}}
            job = wh.handle_bitbucket_repo_event(berte, 'commit_status_updated', data)
        elif kind == 'github_poll':
            def agg_get(client, **kw):
                if notfound:
                    raise HTTPError(response=types.SimpleNamespace(status_code=404))
                st = {}
                if has_target:
                    st[KEYS[0]] = St(rep, KEYS[0], 'host')      # the external status context
                return types.SimpleNamespace(status=st, commit=tc)

            def runs_get(client, **kw):
                # the github_actions aggregate is always part of the answer
                return St(rep_other, KEYS[1], 'host')
            saved[(gh.AggregatedStatus, 'get')] = gh.AggregatedStatus.__dict__.get('get')
            saved[(gh.AggregatedWorkflowRuns, 'get')] = gh.AggregatedWorkflowRuns.__dict__.get('get')
            gh.AggregatedStatus.get = staticmethod(agg_get)
            gh.AggregatedWorkflowRuns.get = staticmethod(runs_get)
            repo = gh.Repository.__new__(gh.Repository)
            repo.client = None
            repo.data = {'owner': {'login': 'o'}, 'name': 'r'}
            answer = gh.Repository.get_build_status(repo, tc, tk)
        elif kind == 'bitbucket_poll':
            def bs_get(client, **kw):
                if notfound:
                    raise HTTPError(response=types.SimpleNamespace(status_code=404))
                return St(rep, tk, 'host')
            saved[(bb.BuildStatus, 'get')] = bb.BuildStatus.__dict__.get('get')
            bb.BuildStatus.get = staticmethod(bs_get)
            repo = bb.Repository.__new__(bb.Repository)
            repo.client = None
            repo._json_data = {'owner': 'o', 'repo_slug': 'r'}
            answer = bb.Repository.get_build_status(repo, tc, tk)
        else:
            raise HarnessError(kind)
    finally:
        for (obj, name), val in saved.items():
            if val is None:
                try:
                    delattr(obj, name)
                except AttributeError:
                    pass
            else:
                setattr(obj, name, val)
    post = {}
    for c in COMMITS:
        for k in KEYS:
            post[(c, k)] = cache.BUILD_STATUS_CACHE[k]._dict.get(c)
    cache.BUILD_STATUS_CACHE.clear()
    cache_step.last_key = tk
    return answer, job, pre, post


def cache_vars():
    v = {}
    for ci in range(2):
        for ki in range(2):
            v['present_%d_%d' % (ci, ki)] = z3.Bool('present_%d_%d' % (ci, ki))
            v['cached_%d_%d' % (ci, ki)] = z3.Int('cached_%d_%d' % (ci, ki))
    for k in ('reported', 'reported_other'):
        v[k] = z3.Int(k)
    for k in ('host_has_other', 'host_404', 'host_has_target', 'poll_key1'):
        v[k] = z3.Bool(k)
    return v


def cache_pre(v):
    c = [z3.And(t >= 0, t < 5) for k, t in v.items() if z3.is_int(t)]
    return z3.And(*c)


def state_term(x):
    """z3 Int code of a status object's state (SEnum or str)."""
    if isinstance(x, SEnum):
        return x.t
    return z3.IntVal(STATES.index(x))


def cache_harness(kind):
    def h(ctx):
        v = cache_vars()
        ctx.assume(cache_pre(v))
        answer, job, pre, post = cache_step(ctx, kind, v, True)
        conds = []
        labels = []
        # 1. a cached SUCCESSFUL stays SUCCESSFUL (every commit, every key)
        for ck, obj in pre.items():
            was_green = state_term(obj.state) == 0
            after = post.get(ck)
            if after is None:
                conds.append(z3.Not(was_green))
            else:
                conds.append(z3.Implies(was_green, state_term(after.state) == 0))
            labels.append('cached SUCCESSFUL for %s/%s downgraded or dropped' % ck)
        tk = cache_step.last_key
        tck = (COMMITS[0], tk)
        green = state_term(pre[tck].state) == 0 if tck in pre else z3.BoolVal(False)
        if kind.endswith('_poll'):
            # 2. answer: SUCCESSFUL if cached green, else what the host reports now
            a = state_term(answer)
            if kind == 'github_poll' and tk == KEYS[1]:
                host = z3.If(v['host_404'], 3, v['reported_other'])
            elif kind == 'github_poll':
                host = z3.If(z3.Or(v['host_404'], z3.Not(v['host_has_target'])), 3, v['reported'])
            else:
                host = z3.If(v['host_404'], 3, v['reported'])
            conds.append(a == z3.If(green, 0, host))
            labels.append('poll answer differs from cached-green-or-host-report')
            # 4. what was answered SUCCESSFUL is remembered (it must keep being answered
            #    SUCCESSFUL whatever the host reports later)
            after = post.get(tck)
            conds.append(z3.Implies(a == 0, z3.BoolVal(False) if after is None else state_term(after.state) == 0))
            labels.append('a SUCCESSFUL answer was not remembered in the cache')
        else:
            # 3. a job is produced iff the event is not INPROGRESS
            conds.append(z3.BoolVal(job is not None) == (v['reported'] != 2))
            labels.append('CommitJob produced iff event state != INPROGRESS')
            # 5. the event is recorded under the key it was reported with and nowhere else
            for ck in [(c, k) for c in COMMITS for k in KEYS]:
                if ck == tck:
                    after = post.get(ck)
                    conds.append(z3.Or(green, z3.BoolVal(after is not None) if after is None
                                       else state_term(after.state) == v['reported']))
                    labels.append('status event not recorded under its own key')
                else:
                    conds.append(z3.BoolVal(post.get(ck) is pre.get(ck)))
                    labels.append('status event changed the cache entry of another key / commit')
        ctx.stats.obligations += len(conds)
        for cnd, lab in zip(conds, labels):
            r, m = ctx.sat_model(z3.Not(cnd))
            if r == 'sat':
                return dict(kind=kind, bad={k: model_value(m, t) for k, t in v.items()},
                            label=lab, wit=None)
        r2, m2 = ctx.sat_model()
        return dict(kind=kind, bad=None, label=None,
                    wit={k: model_value(m2, t) for k, t in v.items()})
    return h


def cache_concrete(kind, vals):
    """Concrete run; returns list of violated labels."""
    answer, job, pre, post = cache_step(None, kind, vals, False)
    bad = []
    for ck, obj in pre.items():
        if obj.state == 'SUCCESSFUL':
            after = post.get(ck)
            if after is None or after.state != 'SUCCESSFUL':
                bad.append('cached SUCCESSFUL for %s/%s downgraded or dropped' % ck)
    tk = cache_step.last_key
    tck = (COMMITS[0], tk)
    green = tck in pre and pre[tck].state == 'SUCCESSFUL'
    if kind.endswith('_poll'):
        if kind == 'github_poll' and tk == KEYS[1]:
            host = 'NOTSTARTED' if vals['host_404'] else STATES[vals['reported_other']]
        elif kind == 'github_poll':
            host = 'NOTSTARTED' if (vals['host_404'] or not vals['host_has_target']) \
                else STATES[vals['reported']]
        else:
            host = 'NOTSTARTED' if vals['host_404'] else STATES[vals['reported']]
        if answer != ('SUCCESSFUL' if green else host):
            bad.append('poll answer differs from cached-green-or-host-report')
        after = post.get(tck)
        if answer == 'SUCCESSFUL' and (after is None or after.state != 'SUCCESSFUL'):
            bad.append('a SUCCESSFUL answer was not remembered in the cache')
    else:
        if (job is not None) != (STATES[vals['reported']] != 'INPROGRESS'):
            bad.append('CommitJob produced iff event state != INPROGRESS')
        for ck in [(c, k) for c in COMMITS for k in KEYS]:
            if ck == tck:
                after = post.get(ck)
                if not green and (after is None or after.state != STATES[vals['reported']]):
                    bad.append('status event not recorded under its own key')
            elif post.get(ck) is not pre.get(ck):
                bad.append('status event changed the cache entry of another key / commit')
    return bad


# ---------------------------------------------------------------------------
# (c) LRU cache vs functional reference
def lru_harness(nops):
    def h(ctx):
        from bert_e.lib.lru_cache import LRUCache
        cache = LRUCache(size=2)
        # reference: two slots ordered by recency (s0 most recent)
        s = [z3.IntVal(-1), z3.IntVal(-1)]
        val = [z3.IntVal(-1), z3.IntVal(-1)]
        ok = [z3.BoolVal(False), z3.BoolVal(False)]
        ops = []
        kterms = []
        for i in range(nops):
            is_set = z3.Bool('is_set%d' % i)
            k = z3.Int('k%d' % i)
            kterms.append(k)
            ctx.assume(z3.And(k >= 0, k < 3))
            vv = z3.IntVal(100 + i)
            hit0 = z3.And(ok[0], s[0] == k)
            hit1 = z3.And(ok[1], s[1] == k)
            if ctx.decide(is_set):
                cache.set(SInt(k), SInt(vv))
                ops.append(('set', k))
                ns = [k, z3.If(hit0, s[1], s[0])]
                nv = [vv, z3.If(hit0, val[1], val[0])]
                nok = [z3.BoolVal(True), z3.If(hit0, ok[1], ok[0])]
                s, val, ok = ns, nv, nok
            else:
                got = cache.get(SInt(k), None)
                ops.append(('get', k))
                exp_hit = z3.Or(hit0, hit1)
                exp_val = z3.If(hit0, val[0], val[1])
                ctx.stats.obligations += 1
                if got is None:
                    r, m = ctx.sat_model(exp_hit)
                    if r == 'sat':
                        return dict(bad='get missed a present key', ops=_ops(m, ops))
                else:
                    r, m = ctx.sat_model(z3.Not(z3.And(exp_hit, got.t == exp_val)))
                    if r == 'sat':
                        return dict(bad='get returned a wrong/evicted value', ops=_ops(m, ops))
                # a hit on slot 1 makes it most recent
                ns = [z3.If(hit1, s[1], s[0]), z3.If(hit1, s[0], s[1])]
                nv = [z3.If(hit1, val[1], val[0]), z3.If(hit1, val[0], val[1])]
                nok = [z3.If(hit1, ok[1], ok[0]), z3.If(hit1, ok[0], ok[1])]
                s, val, ok = ns, nv, nok
        if len(cache._dict) > 2:
            return dict(bad='cache grew beyond its size', ops=nops)
        # final presence of every key value
        for kv in range(3):
            present = any(bool(SBool(kk.t == kv)) for kk in list(cache._dict.keys()))
            exp = z3.Or(z3.And(ok[0], s[0] == kv), z3.And(ok[1], s[1] == kv))
            ctx.stats.obligations += 1
            r, m = ctx.sat_model(exp != z3.BoolVal(present))
            if r == 'sat':
                return dict(bad='presence of key differs from LRU reference', ops=_ops(m, ops))
        return dict(bad=None, ops=None)
    return h


def _ops(m, ops):
    return [(kind, model_value(m, k)) for kind, k in ops]


def lru_concrete(ops, size=2):
    """Real LRUCache vs a plain-Python least-recently-used reference."""
    from bert_e.lib.lru_cache import LRUCache
    cache = LRUCache(size=size)
    ref = []                       # [(key, value)], most recent last
    for i, (kind, k) in enumerate(ops):
        if kind == 'set':
            cache.set(k, 100 + i)
            ref = [(a, b) for a, b in ref if a != k]
            ref.append((k, 100 + i))
            ref = ref[-size:]
        else:
            got = cache.get(k, None)
            hit = [b for a, b in ref if a == k]
            if (got is None) != (not hit) or (hit and got != hit[0]):
                return True
            if hit:
                ref = [(a, b) for a, b in ref if a != k] + [(k, hit[0])]
    return sorted(cache._dict.keys()) != sorted(a for a, b in ref)


# ---------------------------------------------------------------------------
def replay(data):
    common.install_common_stubs()
    import bert_e.git_host.github as gh
    import bert_e.server.webhook as wh
    import bert_e.git_host.bitbucket as bb
    common.silence(gh, wh, bb)
    if data['part'] == 'aggregation':
        st = agg_concrete(data['n'], data['vals'])
        return st == 'SUCCESSFUL' and not agg_expected_possible(data['n'], data['vals'])
    if data['part'] == 'cache':
        return data['label'] in cache_concrete(data['kind'], data['vals'])
    if data['part'] == 'wire':
        from . import c17wire
        return c17wire.replay(data)
    if data['part'] == 'lru':
        ops = [tuple(o) for o in data['ops']]
        return lru_concrete(ops) or any(lru_concrete(ops + [('set', 9), ('get', k)]) for k in (0, 1, 2))
    return False


def describe_runs(n, vals):
    return [dict(event=EVENTS[vals['ev%d' % i]], status=STATUS[vals['st%d' % i]],
                 conclusion=CONCL[vals['co%d' % i]], workflow_id=vals['wf%d' % i],
                 head_branch='branch%d' % vals['br%d' % i]) for i in range(n)]


def agg_signature(n, vals):
    """Shape: is the failing/unfinished kept run on the same branch as a
    success run but separated from it in list order?"""
    runs = describe_runs(n, vals)
    kept = [r for r in runs if r['event'] != 'workflow_dispatch']
    brs = [r['head_branch'] for r in kept]
    # interleaved: some branch appears in two non-adjacent groups
    groups = [b for i, b in enumerate(brs) if i == 0 or brs[i - 1] != b]
    inter = len(groups) != len(set(groups))
    return ('aggregation SUCCESSFUL although no branch is all-green: runs of one '
            'branch are %s in the list' % ('not adjacent (groupby on an unsorted list)'
                                           if inter else 'adjacent'))


def check(rep):
    rep.stubs += common.install_common_stubs()
    import bert_e.git_host.github as gh
    import bert_e.server.webhook as wh
    import bert_e.git_host.bitbucket as bb
    common.silence(gh, wh, bb)
    rep.stubs += ['github.StatusEvent / CheckSuiteEvent / webhook.BuildStatus constructors '
                  '-> stub status objects (schema validation is outside the claim)',
                  'AggregatedStatus.get / AggregatedWorkflowRuns.get / bitbucket BuildStatus.get '
                  '-> symbolic host answer (or HTTP 404)']
    rep.functions_encoded += [
        'github.AggregatedWorkflowRuns.state/remove_unwanted_workflows/branch_state/'
        'is_pending/is_queued', 'github.Repository.get_build_status/get_commit_status',
        'bitbucket.Repository.get_build_status', 'webhook.handle_github_status_event',
        'webhook.handle_github_check_suite_event', 'webhook.handle_bitbucket_repo_event',
        'lib.lru_cache.LRUCache.get/set', 'git_host.cache.BUILD_STATUS_CACHE']
    nmax = 3          # (4 runs x 3 workflow ids did not finish in an hour: ~40x the 9 364 paths of 3 runs)
    nops = 4 if rep.tier == 'quick' else 5
    rep.bounds = dict(workflow_runs='0..%d' % nmax, workflow_ids=NWF, head_branches=2,
                      cache='2 commits x 2 keys, one step from an arbitrary content',
                      lru='size 2, %d operations, 3 key values' % nops)
    rep.assumptions += ['symmetry reduction: workflow ids and head branches are labelled in order '
                        'of first appearance (the code and the oracle only compare them for equality)',
                        'GitHub contract: a workflow run has a conclusion iff its status is '
                        '"completed"',
                        'only the stated direction is checked: SUCCESSFUL only if some branch '
                        'is all-green (ties between equally ranked runs of a workflow may be '
                        'broken either way)']
    # (a)
    for n in range(0, nmax + 1):
        results, st = common.explore_parallel(agg_harness(n), split_depth=6, max_paths=3000000)
        rep.add_stats(st, 'aggregation n=%d' % n)
        states = set(r['state'] for _, r in results)
        if n >= 1 and not {'SUCCESSFUL', 'FAILED', 'INPROGRESS'} <= states:
            rep.error('vacuity: aggregation states reached for n=%d: %s' % (n, states))
        seen = set()
        for _, r in results:
            if r['bad'] is not None:
                data = dict(part='aggregation', n=n, vals=r['bad'])
                sig = agg_signature(n, r['bad']) if n else 'SUCCESSFUL with no run'
                if sig in seen:
                    continue
                seen.add(sig)
                rep.cexs.append(Cex('C17', sig, data, replay(data),
                                    'runs %s -> SUCCESSFUL' % describe_runs(n, r['bad'])))
        wits = [r['wit'] for _, r in results if r['wit']]
        for i in common.sample_indices(len(wits), 150, rep.seed):
            got = agg_concrete(n, wits[i])
            if got == 'SUCCESSFUL' and not agg_expected_possible(n, wits[i]):
                rep.error('aggregation witness replay mismatch %r' % wits[i])
                break
            rep.validated += 1
        if wits and n == 2:
            rep.sample(dict(part='aggregation', runs=describe_runs(n, wits[0]),
                            state=agg_concrete(n, wits[0])))
    tw, st = explore(agg_harness(2, twin=True))
    if not any(r['bad'] is not None for _, r in tw):
        rep.error('aggregation reachability twin not refuted')
    rep.add_part('reachability twins', paths=st.paths)
    # (b)
    for kind in ('github_status', 'github_check_suite', 'bitbucket_event', 'github_poll',
                 'bitbucket_poll'):
        results, st = explore(cache_harness(kind))
        rep.add_stats(st, 'cache step ' + kind)
        seen = set()
        for _, r in results:
            if r['bad'] is not None:
                sig = 'cache %s: %s' % (kind, r['label'].replace(COMMITS[0], '<commit>'))
                if sig in seen:
                    continue
                seen.add(sig)
                data = dict(part='cache', kind=kind, vals=r['bad'], label=r['label'])
                rep.cexs.append(Cex('C17', sig, data, replay(data), '%s with %r' % (r['label'], r['bad'])))
        wits = [r['wit'] for _, r in results if r['wit']]
        for i in common.sample_indices(len(wits), 40, rep.seed):
            if cache_concrete(kind, wits[i]):
                rep.error('cache witness replay mismatch %s %r' % (kind, wits[i]))
                break
            rep.validated += 1
        if wits and kind == 'github_poll':
            rep.sample(dict(part='cache step', kind=kind, inputs=wits[0]))
    # (b') sequences of polls and events through the real HTTP stack
    from . import c17wire
    c17wire.part(rep)
    # (c)
    results, st = common.explore_parallel(lru_harness(nops), split_depth=6)
    rep.add_stats(st, 'LRU size 2, %d ops' % nops)
    for _, r in results:
        if r['bad']:
            ok = lru_concrete(r['ops'])
            if not ok:
                # the divergence may need one more access to become observable
                ok = any(lru_concrete(r['ops'] + [('set', 9), ('get', k)]) for k in (0, 1, 2))
            rep.cexs.append(Cex('C17', 'LRU: ' + r['bad'], dict(part='lru', ops=r['ops']), ok,
                                '%s after %s' % (r['bad'], r['ops'])))
            break
