"""C15 - reset never silently discards manual work and only touches its own PR.

Real code: commands._reset (both `force` values), integration.
get_integration_branches, Branch.get_commit_diff / includes_commit / remove,
Commit.parents / author, git_utils.push, on the explicit-DAG symbolic repository
(symgit.dag.DagRepo): every commit's parents and author flag and all ref tips
are symbolic; `git log A..B` is decided commit by commit.
"""
import types
import z3

from symx.core import explore, model_value, HarnessError, Ctx
from symx.report import Cex
from symgit.dag import DagRepo
from . import common, gitflow as GF

SRC = 'feature/x'
DSTS = ['development/4.3', 'development/5.1']
W = 'w/5.1/feature/x'
DSTS3 = ['development/4.3', 'development/5.1', 'development/10.0']
W3 = 'w/10.0/feature/x'
FOREIGN = ['w/5.1/feature/other', 'q/5.1', 'feature/other']


def layout(three):
    """(destinations, [(integration branch, its destination)])"""
    if three:
        return DSTS3, [(W, DSTS3[1]), (W3, DSTS3[2])]
    return DSTS, [(W, DSTS[1])]


def run_reset(repo, force, host):
    from bert_e.workflow.gitwaterflow import branches as B, commands as C
    from bert_e import exceptions as ex
    src = B.branch_factory(repo, SRC)
    d1 = B.branch_factory(repo, DSTS[0])
    job = types.SimpleNamespace(
        git=types.SimpleNamespace(repo=repo, cascade=B.BranchCascade(), src_branch=src, dst_branch=d1),
        settings=types.SimpleNamespace(robot='robot', robot_email='r@x'), active_options=[],
        project_repo=host)
    try:
        C._reset(job, force=force)
        return 'returned'
    except ex.LossyResetWarning:
        return 'lossy'
    except ex.ResetComplete:
        return 'complete'


class PRHost:
    def __init__(self):
        self.declined = []
        host = self

        class P:
            def __init__(self, pid, src):
                self.id, self.src_branch = pid, src

            def decline(self):
                host.declined.append(self.id)
        self.prs = [P(11, W), P(12, FOREIGN[0]), P(13, SRC), P(14, W3)]

    def get_pull_requests(self, src_branch=None, **kw):
        return [p for p in self.prs if p.src_branch in src_branch]


def lossy_formula(repo, pre, count_merges, wname=W, dname=DSTS[1]):
    """The statement: manual work = a commit of the integration branch that is not
    the robot's, not part of the source branch (current or previous version) and
    was made on top of the integration branch itself."""
    N = repo.N
    Wr = repo.rset(pre[wname])
    D = repo.rset(pre[dname])
    S = repo.rset(pre[SRC])
    ins = lambda bv, j: z3.Extract(j, j, bv) == 1                      # noqa
    merge = lambda j: repo.p2[j] >= 0                                   # noqa
    # F: commits of the source branch (not in the destination) ...
    F = [z3.And(ins(S, j), z3.Not(ins(D, j))) for j in range(N)]
    if not count_merges:
        F = [z3.And(F[j], z3.Not(merge(j))) for j in range(N)]
    # ... closed under: single-parent non-robot commit of w\\dst whose parent is in F or in dst
    for _ in range(N):
        F2 = []
        for j in range(N):
            par_ok = z3.Or(*[z3.And(repo.p1[j] == k, z3.Or(F[k], ins(D, k))) for k in range(j)]) \
                if j else z3.BoolVal(False)
            cand = z3.And(ins(Wr, j), z3.Not(ins(D, j)), z3.Not(merge(j)), z3.Not(repo.robot[j]), par_ok)
            F2.append(z3.Or(F[j], cand))
        F = F2
    cands = []
    for j in range(N):
        c = z3.And(ins(Wr, j), z3.Not(ins(D, j)), z3.Not(repo.robot[j]), z3.Not(F[j]))
        if not count_merges:
            c = z3.And(c, z3.Not(merge(j)))
        cands.append(c)
    return z3.Or(*cands)


def make_harness(N, force, with_w=True, twin=False, count_merges=True, three=False):
    def h(ctx):
        dsts, wl = layout(three)
        refs = dsts + [SRC] + ([w for w, _ in wl] if with_w else []) + FOREIGN
        repo = DagRepo(ctx, refs, N)
        host = PRHost()
        pre = dict(repo.tip)
        out = run_reset(repo, force, host)
        conds = []
        deleted = sorted(r for (k, r) in repo.remote_ops if k == 'delete')
        updated = sorted(r for (k, r) in repo.remote_ops if k == 'update')
        if with_w:
            lossy = z3.Or(*[lossy_formula(repo, pre, count_merges, w, d) for w, d in wl])
            if force:
                conds.append(('force_reset did not complete', z3.BoolVal(out == 'complete')))
            else:
                conds.append(('reset %s although %s' % (
                    'discards the integration branch' if out == 'complete' else 'refuses',
                    'manual work is on it' if out == 'complete' else 'no manual work is on it'),
                    z3.BoolVal(out == 'lossy') == lossy))
            if out == 'lossy':
                conds.append(('a refusing reset touched the remote or declined a pull request',
                              z3.BoolVal(not repo.remote_ops and not host.declined)))
            if out == 'complete':
                conds.append(('reset deletes exactly the integration branches of this pull request',
                              z3.BoolVal(deleted == sorted(w for w, _ in wl) and not updated)))
                conds.append(('reset declines exactly its integration pull requests',
                              z3.BoolVal(sorted(host.declined) == ([11, 14] if three else [11]))))
        else:
            conds.append(('reset without integration branches', z3.BoolVal(
                out == 'complete' and not repo.remote_ops and not host.declined)))
        if twin:
            conds.append(('twin', z3.BoolVal(out != 'lossy')))
        ctx.stats.obligations += len(conds)
        for label, c in conds:
            c = z3.simplify(c)
            if z3.is_true(c):
                continue
            r, m = ctx.sat_model(z3.Not(c))
            if r == 'sat':
                return dict(out=out, bad=repo.concretize(m), label=label, deleted=deleted)
        wit = None
        if not three:
            r2, m2 = ctx.sat_model()
            if r2 == 'sat':
                wit = repo.concretize(m2)
        return dict(out=out, bad=None, label=None, wit=wit, deleted=deleted)
    return h


# -- concrete replay on a real repository ------------------------------------------------------
def build_real(world):
    """Real repository for a concrete DAG: commit i has the given parents and is
    authored by the robot or by a contributor."""
    import os
    import subprocess
    import tempfile
    from symgit.realgit import git, ENV
    d = tempfile.mkdtemp(prefix='realdag-')
    bare = os.path.join(d, 'o%s.git' % os.path.basename(d)[8:])
    os.makedirs(bare)
    git(bare, 'init', '-q', '--bare', '.')
    sha = {}
    N = world['N']
    reach = {}
    for i in range(N):
        ps = [p for p in (world['p1'][i], world['p2'][i]) if p is not None and p >= 0]
        reach[i] = {i}.union(*[reach[p] for p in ps]) if ps else {i}
        tree_in = ''
        # a clean merge made by the robot carries no content of its own
        def bears(j):
            pj = [p for p in (world['p1'][j], world['p2'][j]) if p is not None and p >= 0]
            return not (world['robot'][j] and len(pj) == 2)
        for j in sorted(k for k in reach[i] if bears(k)):
            b = git(bare, 'hash-object', '-w', '--stdin', inp='atom %d\n' % j)
            tree_in += '100644 blob %s\ta%02d\n' % (b, j)
        tree = git(bare, 'mktree', inp=tree_in)
        args = ['commit-tree', tree, '-m', 'atom %d' % i]
        for p in ps:
            args += ['-p', sha[p]]
        name = 'robot' if world['robot'][i] else 'alice'
        env = dict(ENV, GIT_AUTHOR_NAME=name, GIT_COMMITTER_NAME=name,
                   GIT_AUTHOR_DATE='2020-01-01T00:00:%02d +0000' % i,
                   GIT_COMMITTER_DATE='2020-01-01T00:00:%02d +0000' % i)
        r = subprocess.run(['git'] + args, cwd=bare, env=env, stdout=subprocess.PIPE,
                           stderr=subprocess.PIPE, text=True)
        if r.returncode:
            raise RuntimeError(r.stderr)
        sha[i] = r.stdout.strip()
    for name, a in world['refs'].items():
        git(bare, 'update-ref', 'refs/heads/' + name, sha[a])
    git(bare, 'symbolic-ref', 'HEAD', 'refs/heads/' + DSTS[0])
    return d, bare, sha, reach


def concrete_expected(world, count_merges=True):
    """Plain-Python reading of the statement on a concrete DAG."""
    N = world['N']
    par = {i: [p for p in (world['p1'][i], world['p2'][i]) if p is not None and p >= 0] for i in range(N)}
    reach = {}
    for i in range(N):
        reach[i] = {i}.union(*[reach[p] for p in par[i]]) if par[i] else {i}
    res = False
    for wname, dname in ((W, DSTS3[1]), (W3, DSTS3[2])):
        if wname not in world['refs']:
            continue
        Wr, D, S = reach[world['refs'][wname]], reach[world['refs'][dname]], reach[world['refs'][SRC]]
        F = set(S - D)
        changed = True
        while changed:
            changed = False
            for j in sorted(Wr - D):
                if j in F or world['robot'][j] or len(par[j]) != 1:
                    continue
                if par[j][0] in F or par[j][0] in D:
                    F.add(j)
                    changed = True
        res = res or any((not world['robot'][j]) and j not in F for j in Wr - D)
    return res


def real_reset(world, force):
    import shutil
    from bert_e.lib.git import Repository
    from symgit.realgit import git
    common.install_common_stubs()
    GF.silence_all()
    d, bare, sha, reach = build_real(world)
    try:
        repo = Repository(bare)
        host = PRHost()
        pre = git(bare, 'for-each-ref', '--format=%(refname)', 'refs/heads').split()
        try:
            out = run_reset(repo, force, host)
        finally:
            try:
                repo.delete()
            except Exception:
                pass
        post = git(bare, 'for-each-ref', '--format=%(refname)', 'refs/heads').split()
        gone = sorted(set(pre) - set(post))
        return out, [g[len('refs/heads/'):] for g in gone], host.declined
    finally:
        shutil.rmtree(d, ignore_errors=True)


def replay(data):
    if 'history' in data:
        from . import histcheck
        return histcheck.replay('C15', data)
    world, force = data['world'], data['force']
    if W not in world['refs']:
        return False
    out, gone, declined = real_reset(world, force)
    exp_lossy = concrete_expected(world)
    label = data['label']
    if label.startswith('reset discards') or label.startswith('reset refuses'):
        return (out == 'lossy') != exp_lossy
    if label.startswith('force_reset'):
        return out != 'complete'
    if 'refusing reset touched' in label:
        return out == 'lossy' and (gone or declined)
    ws = sorted(w for w in (W, W3) if w in world['refs'])
    if 'deletes exactly' in label:
        return out == 'complete' and gone != ws
    if 'declines exactly' in label:
        return out == 'complete' and sorted(declined) != ([11, 14] if W3 in world['refs'] else [11])
    return False


def shape(world):
    """Shape of a lossy-decision counterexample: what kind of commit is the
    undetected / over-detected manual work."""
    N = world['N']
    par = {i: [p for p in (world['p1'][i], world['p2'][i]) if p is not None and p >= 0] for i in range(N)}
    reach = {}
    for i in range(N):
        reach[i] = {i}.union(*[reach[p] for p in par[i]]) if par[i] else {i}
    Wr, D, S = reach[world['refs'][W]], reach[world['refs'][DSTS[1]]], reach[world['refs'][SRC]]
    if W3 in world['refs']:
        return 'several integration branches'
    manual_merge = [j for j in Wr - D - S if len(par[j]) == 2 and not world['robot'][j]]
    src_merge = [j for j in (S - D) if len(par[j]) == 2]
    if manual_merge:
        return 'a merge commit made by a contributor on the integration branch'
    if src_merge:
        return 'a merge commit on the source branch'
    return 'single-parent commits only'




def check(rep):
    rep.stubs += common.install_common_stubs()
    rep.stubs += GF.silence_all()
    from bert_e.workflow.gitwaterflow import commands as C
    common.silence(C)
    rep.stubs += ['git binary -> symgit.dag.DagRepo (explicit parents / authors; git log decided '
                  'commit by commit, children before parents)',
                  'git host -> three pull requests (one integration PR of this parent, one of another '
                  'PR, the parent itself)']
    rep.functions_encoded += ['commands._reset', 'integration.get_integration_branches',
                              'branches.BranchCascade.build/finalize', 'lib.git.Branch.get_commit_diff/'
                              'includes_commit/remove/exists', 'lib.git.Commit.parents/author/__eq__/__hash__',
                              'git_utils.push', 'lib.git.Repository.push_all']
    N = 4 if rep.tier == 'quick' else 5
    rep.bounds = dict(commits=N, integration_branches='1 (N commits) and 2 (3 commits; thorough 4)', foreign_refs=FOREIGN)
    rep.assumptions += ['git log lists children before parents (no clock skew)',
                        '"made on top of the integration branch itself" is read as: its parent is neither '
                        'a (previous) source-branch commit nor on the destination',
                        'a merge commit made by somebody other than the robot is manual work']
    rep.outside_claim += ['graphs with more than %d commits, several integration branches chained' % N,
                          'the next evaluation rebuilding the integration branches']
    cfgs = [(N, False, True, False), (N, True, True, False), (3, False, False, False)]
    if rep.tier == 'quick':
        cfgs.append((3, False, True, False))
    # two integration branches (three destinations)
    cfgs.append((3 if rep.tier == 'quick' else 4, False, True, True))
    outs = []
    # split the big exploration over the pool
    for cfg in cfgs:
        n, force, with_w, three = cfg
        results, st = common.explore_parallel(make_harness(n, force, with_w, three=three), split_depth=8,
                                              max_paths=3000000, max_depth=2000)
        outs.append((cfg, results, st.as_dict()))
    seen = {}
    outcomes = set()
    for cfg, results, st in outs:
        rep.add_stats(st, 'N=%d force=%s integration branch%s %s' % (
            cfg[0], cfg[1], 'es (2)' if cfg[3] else '', 'present' if cfg[2] else 'absent'))
        wits = []
        for _, r in results:
            outcomes.add((cfg[1], r['out']))
            if r['bad'] is not None:
                sig = r['label']
                if r['label'].startswith('reset discards') or r['label'].startswith('reset refuses'):
                    sig += ': ' + shape(r['bad'])
                if sig not in seen:
                    seen[sig] = dict(world=r['bad'], force=cfg[1], label=r['label'])
            elif r.get('wit') and cfg[2]:
                wits.append(r['wit'])
        for i in common.sample_indices(len(wits), 6 if rep.tier == 'quick' else 30, rep.seed):
            w = wits[i]
            out, gone, declined = real_reset(w, cfg[1])
            exp = 'complete' if cfg[1] else ('lossy' if concrete_expected(w) else 'complete')
            if out != exp or (out == 'complete' and gone != [W]):
                rep.error('witness differs on real git: %r -> %s (expected %s) gone=%s' % (w, out, exp, gone))
                break
            rep.validated += 1
        if wits:
            rep.sample(dict(dag=wits[0], force=cfg[1]))
    if (False, 'lossy') not in outcomes or (False, 'complete') not in outcomes:
        rep.error('vacuity: reset outcomes reached %s' % sorted(outcomes))
    for sig, d in sorted(seen.items()):
        try:
            ok = replay(d)
        except Exception as e:
            ok = False
            rep.error('replay failed: %r' % (e,))
        rep.cexs.append(Cex('C15', sig, d, ok, 'DAG %s' % d['world']))
    tw, st = explore(make_harness(4, False, True, twin=True), max_depth=2000)
    if not any(r['label'] == 'twin' for _, r in tw):
        rep.error('reachability twin not refuted')
    # the commands repeated along histories of complete jobs (DESIGN 11)
    from . import histcheck
    histcheck.check(rep, 'C15')
