"""C11 - the ticket gate admits a pull request exactly when its Jira issue fits.

Real code: jira.jira_checks / check_issue_reference / get_jira_issue /
check_project / check_issue_type / check_fix_versions, utils.bypass_jira_check,
PullRequestJob.author_bypass, FeatureBranch (real key extraction from the
branch name).  lib.jira.JiraIssue is replaced by a stub returning a symbolic
issue or raising JIRAError(404).

Symbolic: every flag and membership (bypass from two sources, prefix in
bypass_prefixes, the three "Jira configured" settings, allow_ticketless_pr per
target, project in jira_keys, issue type in prefixes / prefixes empty,
disable_version_checks, issue absent) and the issue's fixVersions as an
arbitrary subset of a 6-version universe.
Enumerated: source branch names (ticket / lower-case ticket / no ticket) and
the target-version lists of the C01 cascade shapes.
"""
import types
import z3

from symx.core import SBool, explore, model_value, HarnessError, PathAbort, Ctx
from symx.report import Cex
import rx2z3 as R
from . import common

SOURCES = [('bugfix/PROJ-12-fix-it', 'PROJ-12', 'PROJ'),
           ('bugfix/proj-7', 'PROJ-7', 'PROJ'),
           ('feature/no-ticket-here', None, None),
           ('improvement/OTHER_1-3/x', 'OTHER_1-3', 'OTHER_1')]
# (targets, expected fix versions, fixVersions universe)
TARGETS = [
    (['development/4.3', 'development/5.1', 'development/10.0'],
     ['4.3.18', '5.1.4', '10.0.0'],
     ['4.3.18', '5.1.4', '10.0.0', '4.3.17', '5.1.4_hf7', '10.0.0.0']),
    (['stabilization/5.1.4', 'development/5.1', 'development/10.0'],
     ['5.1.4', '10.0.0'],
     ['5.1.4', '10.0.0', '5.1.5', '5.1.4.0', '10.0.0-rc1', '4.2.17.1']),
    (['hotfix/4.2.17'], ['4.2.17.1'],
     ['4.2.17.1', '4.2.17', '4.2.17.0', '4.2.17.2', '4.2.17.1_x', '4.3.18']),
    (['development/10.0'], ['10.0.0'],
     ['10.0.0', '10.0.0.0', '10.0.1', 'v10.0.0', '10.0', '10.0.0.1']),
]
FLAGS = ['bypass_jira_check', 'ab_jira', 'has_ab', 'prefix_bypassed', 'jira_keys_set',
         'jira_email_set', 'jira_url_set', 'project_known', 'type_known', 'prefixes_set',
         'disable_version_checks', 'issue_404', 'tl0', 'tl1', 'tl2']


class Touched(BaseException):
    pass


class NoRepo:
    def cmd(self, *a, **k):
        raise Touched('repository touched: %r' % (a,))


class SymMembership(list):
    """A list setting whose membership test / truthiness is symbolic."""

    def __init__(self, member, nonempty, sym, probe=None):
        if sym or probe is None:
            super().__init__(['<symbolic members>'])
        else:
            # concrete replay: a real list; a non-member is still a near miss
            # (substring / different case) of an entry
            super().__init__([probe, 'ZZZ'] if member else ['X' + probe + 'X', probe.lower() + '_', 'ZZZ'])
        self.member, self.nonempty, self.sym = member, nonempty, sym
        self.real = not sym and probe is not None

    def __contains__(self, x):
        if getattr(self, 'real', False):
            return list.__contains__(self, x)
        return bool(SBool(self.member)) if self.sym else bool(self.member)

    def __bool__(self):
        return bool(SBool(self.nonempty)) if self.sym else bool(self.nonempty)


class SymDict(dict):
    def __init__(self, member, nonempty, sym):
        super().__init__({'<symbolic>': 'x'})
        self.member, self.nonempty, self.sym = member, nonempty, sym

    def __contains__(self, x):
        return bool(SBool(self.member)) if self.sym else bool(self.member)

    def __bool__(self):
        return bool(SBool(self.nonempty)) if self.sym else bool(self.nonempty)


class Truthy:
    def __init__(self, t, sym):
        self.t, self.sym = t, sym

    def __bool__(self):
        return bool(SBool(self.t)) if self.sym else bool(self.t)


class FixVersions:
    """Iterating forks over membership of each universe element."""

    def __init__(self, universe, bits, sym):
        self.universe, self.bits, self.sym = universe, bits, sym

    def __iter__(self):
        for i, name in enumerate(self.universe):
            if self.sym:
                present = Ctx.cur.decide(z3.Extract(i, i, self.bits) == 1)
            else:
                present = bool(self.bits >> i & 1)
            if present:
                yield types.SimpleNamespace(name=name)


def run(si, ti, vals, sym):
    from bert_e.workflow.gitwaterflow import jira as J, branches as B
    from bert_e.job import PullRequestJob
    from bert_e.lib.settings_dict import SettingsDict
    from bert_e import exceptions as ex
    from jira.exceptions import JIRAError
    name, key, project = SOURCES[si]
    targets, expected, universe = TARGETS[ti]
    Bv = (lambda k: SBool(vals[k])) if sym else (lambda k: bool(vals[k]))
    repo = NoRepo()
    src = B.FeatureBranch(repo, name)
    if (src.jira_issue_key or None) != key or (src.jira_project or None) != project:
        raise HarnessError('key extraction of %r: %r/%r' % (name, src.jira_issue_key, src.jira_project))
    dsts = []
    for k, t in enumerate(targets):
        b = B.branch_factory(repo, t)
        b.allow_ticketless_pr = Bv('tl%d' % k)
        dsts.append(b)
    has_ab = vals['has_ab']
    if sym:
        has_ab = Ctx.cur.decide(has_ab)
    pao = {'author': {'bypass_jira_check': Bv('ab_jira')}} if has_ab else {}
    asked = []

    def JiraIssue(account_url, issue_id, email, token):
        asked.append(issue_id)
        nf = vals['issue_404']
        if sym:
            nf = Ctx.cur.decide(nf)
        if nf:
            raise JIRAError(status_code=404, text='not found')
        return types.SimpleNamespace(
            key=issue_id,
            fields=types.SimpleNamespace(
                issuetype=types.SimpleNamespace(name='Bug'),
                fixVersions=FixVersions(universe, vals['fixv'], sym)))
    # memberships: the solver decides, the setting is a REAL list / dict built
    # accordingly (a non-member is a near miss: substring / other case)
    D = (lambda k: Ctx.cur.decide(vals[k])) if sym else (lambda k: bool(vals[k]))
    probe = project or 'NOPROJECT'
    if D('jira_keys_set'):
        jira_keys = [probe, 'ZZZ'] if D('project_known') else ['X' + probe + 'X', probe.lower() + '_', 'ZZZ']
    else:
        jira_keys = []
    bypass_prefixes = [src.prefix] if D('prefix_bypassed') else ['x' + src.prefix, src.prefix + 'x']
    if D('prefixes_set'):
        prefixes = {'Bug': 'bugfix', 'Story': 'feature'} if D('type_known') else {'Buggy': 'bugfix', 'bug': 'x'}
    else:
        prefixes = {}
    job = PullRequestJob.__new__(PullRequestJob)
    job.settings = SettingsDict(
        {'bypass_jira_check': Bv('bypass_jira_check')},
        dict(pr_author_options=pao,
             bypass_prefixes=bypass_prefixes,
             jira_keys=jira_keys,
             jira_email=Truthy(vals['jira_email_set'], sym),
             jira_account_url=Truthy(vals['jira_url_set'], sym), jira_token='tok',
             prefixes=prefixes,
             disable_version_checks=Bv('disable_version_checks'), robot='robot'))
    job.pull_request = types.SimpleNamespace(author='author', id=1)
    job.git = types.SimpleNamespace(
        repo=repo, src_branch=src,
        cascade=types.SimpleNamespace(dst_branches=dsts, target_versions=list(expected)))
    job.start_time = job.end_time = None
    job.id = 'c11'
    job.bert_e = types.SimpleNamespace(settings=types.SimpleNamespace(
        pull_request_base_url='http://x/{pr_id}'))
    orig = J.jira_api.JiraIssue
    J.jira_api.JiraIssue = JiraIssue
    try:
        try:
            J.jira_checks(job)
            out = 'pass'
        except (ex.MissingJiraId, ex.JiraIssueNotFound, ex.IncorrectJiraProject,
                ex.IssueTypeNotSupported, ex.IncorrectFixVersion) as e:
            out = type(e).__name__
        except Touched:
            out = 'TOUCHED'
    finally:
        J.jira_api.JiraIssue = orig
    if asked and asked[0] != key:
        out = 'ASKED-WRONG-ISSUE:%s' % asked[0]
    return out


def variables():
    v = {k: z3.Bool(k) for k in FLAGS}
    v['fixv'] = z3.BitVec('fixv', 6)
    return v


def oracle(si, ti, v):
    """-> dict outcome -> condition (the statement, clause by clause)."""
    name, key, project = SOURCES[si]
    targets, expected, universe = TARGETS[ti]
    import re
    bypass = z3.Or(v['bypass_jira_check'], v['ab_jira'], v['prefix_bypassed'])
    configured = z3.And(v['jira_keys_set'], v['jira_email_set'], v['jira_url_set'])
    skip = z3.Or(bypass, z3.Not(configured))
    tl = [v['tl%d' % k] for k in range(len(targets))]
    has_key = key is not None
    missing = z3.And(z3.BoolVal(not has_key), z3.Not(z3.And(*tl)))
    ticketless_ok = z3.And(z3.BoolVal(not has_key), z3.And(*tl))
    notfound = v['issue_404']
    bad_project = z3.Not(v['project_known'])
    bad_type = z3.And(v['prefixes_set'], z3.Not(v['type_known']))
    bit = lambda i: z3.Extract(i, i, v['fixv']) == 1          # noqa
    hotfix = len(expected) == 1 and re.fullmatch(r'\d+\.\d+\.\d+\.\d+', expected[0])
    if hotfix:
        versions_ok = bit(universe.index(expected[0]))
    else:
        conds = []
        for i, name_ in enumerate(universe):
            counted = re.fullmatch(r'\d+\.\d+\.\d+(\.0)?', name_) is not None
            if name_ in expected:
                conds.append(bit(i))
            elif counted:
                conds.append(z3.Not(bit(i)))
        versions_ok = z3.And(*conds)
    bad_versions = z3.And(z3.Not(v['disable_version_checks']), z3.Not(versions_ok))
    checked = z3.And(z3.Not(skip), z3.BoolVal(has_key))
    return {
        'pass': z3.Or(skip, ticketless_ok,
                      z3.And(checked, z3.Not(notfound), z3.Not(bad_project), z3.Not(bad_type),
                             z3.Not(bad_versions))),
        'MissingJiraId': z3.And(z3.Not(skip), missing),
        'JiraIssueNotFound': z3.And(checked, notfound),
        'IncorrectJiraProject': z3.And(checked, z3.Not(notfound), bad_project),
        'IssueTypeNotSupported': z3.And(checked, z3.Not(notfound), bad_type),
        'IncorrectFixVersion': z3.And(checked, z3.Not(notfound), bad_versions),
    }


def pre(v):
    return z3.Implies(z3.Not(v['has_ab']), z3.Not(v['ab_jira']))


def make_harness(cfg, twin=False):
    si, ti = cfg

    def h(ctx):
        v = variables()
        ctx.assume(pre(v))
        out = run(si, ti, v, True)
        orc = oracle(si, ti, v)
        cond = orc.get(out, z3.BoolVal(False))
        if twin:
            cond = z3.And(cond, z3.Not(v['disable_version_checks']))
        ctx.stats.obligations += 1
        r, m = ctx.sat_model(z3.Not(cond))
        if r == 'sat':
            return dict(out=out, bad={k: model_value(m, t) for k, t in v.items()}, wit=None)
        r2, m2 = ctx.sat_model()
        return dict(out=out, bad=None, wit={k: model_value(m2, t) for k, t in v.items()})
    return h


def concrete(si, ti, vals):
    out = run(si, ti, vals, False)
    v = variables()
    subs = [(t, z3.BitVecVal(vals[k], 6) if k == 'fixv' else z3.BoolVal(bool(vals[k])))
            for k, t in v.items()]
    orc = oracle(si, ti, v)
    ok = [k for k, c in orc.items() if z3.is_true(z3.simplify(z3.substitute(c, *subs)))]
    p = z3.is_true(z3.simplify(z3.substitute(pre(v), *subs)))
    return p, out, ok


def replay(data):
    if isinstance(data, dict) and 'history' in data:
        from . import histcheck
        return histcheck.replay('C11', data)
    if isinstance(data, dict) and data.get('kind') == 'authoropts':
        from . import authoropts
        return authoropts.replay(data)
    common.install_common_stubs()
    from bert_e.workflow.gitwaterflow import jira as J
    common.silence(J)
    p, out, ok = concrete(data['si'], data['ti'], data['vals'])
    return p and out not in ok


def _run(cfg):
    results, st = explore(make_harness(cfg), max_paths=200000)
    return cfg, results, st.as_dict()


def lemmas(rep):
    """rx2z3: the filters of check_fix_versions and the ticket-key extraction."""
    import ast
    import inspect
    from bert_e.workflow.gitwaterflow import jira as J, branches as B
    q = R.Q()
    src = inspect.getsource(J.check_fix_versions)
    pats = [n.args[0].value for n in ast.walk(ast.parse(src))
            if isinstance(n, ast.Call) and getattr(n.func, 'attr', '') == 'compile']
    D = z3.Plus(z3.Range('0', '9'))
    dot = z3.Re('.')
    spec_v = z3.Concat(D, dot, D, dot, D, z3.Option(z3.Concat(dot, z3.Re('0'))))
    spec_hf = z3.Concat(D, dot, D, dot, D, dot, D)
    if len(pats) != 2:
        rep.error('check_fix_versions: expected 2 compiled patterns, found %r' % pats)
        return
    ok1, w1 = q.equal(R.lang(pats[0]), spec_v, 'vfilter == x.y.z | x.y.z.0')
    ok2, w2 = q.equal(R.lang(pats[1]), spec_hf, 'hf_filter == x.y.z.n')
    if not ok1:
        rep.cexs.append(Cex('C11', 'version filter language differs', dict(kind='lemma', w=w1), True,
                            'vfilter accepts/rejects %r contrary to "x.y.z or x.y.z.0"' % w1))
    if not ok2:
        rep.cexs.append(Cex('C11', 'hotfix filter language differs', dict(kind='lemma', w=w2), True,
                            'hf_filter accepts/rejects %r contrary to "x.y.z.n"' % w2))
    # ticket key: a feature name carries a key iff its label starts with
    # [A-Za-z0-9_]+-[0-9]+ ; the key group language is exactly that
    key_l = R.group_lang(B.FeatureBranch.pattern, 'jira_issue_key')
    W = R.charset(lambda c: c.isalnum() or c == '_')
    spec_key = z3.Concat(z3.Plus(W), z3.Re('-'), D)
    ok3, w3 = q.equal(key_l, spec_key, 'jira_issue_key group')
    if not ok3:
        rep.cexs.append(Cex('C11', 'ticket key pattern differs', dict(kind='lemma', w=w3), True,
                            'key group differs on %r' % w3))
    rep.add_part('rx2z3 lemmas', queries=q.n, solver_s=round(q.t, 2))
    rep.queries += q.n
    rep.transitions += q.n
    # differential: solver-generated names through the real FeatureBranch
    import re
    names = q.members(R.lang(B.FeatureBranch.pattern), 40 if rep.tier == 'quick' else 200)
    for nme in names:
        b = B.FeatureBranch(None, nme)
        label = nme.split('/', 1)[1]
        m = re.match(r'[A-Za-z0-9_]+-[0-9]+', label)
        exp = m.group(0).upper() if m else None
        if (b.jira_issue_key or None) != exp:
            rep.cexs.append(Cex('C11', 'ticket key extraction differs from maximal-prefix reading',
                                dict(kind='key', name=nme), True,
                                '%r -> %r, expected %r' % (nme, b.jira_issue_key, exp)))
            break
        rep.validated += 1


def check(rep):
    rep.stubs += common.install_common_stubs()
    from bert_e.workflow.gitwaterflow import jira as J
    common.silence(J)
    rep.stubs += ['lib.jira.JiraIssue -> symbolic issue or JIRAError(404)',
                  'repository -> raises on any command (the gate must not touch it)']
    rep.functions_encoded += [
        'jira.jira_checks', 'jira.check_issue_reference', 'jira.get_jira_issue',
        'jira.check_project', 'jira.check_issue_type', 'jira.check_fix_versions',
        'utils.bypass_jira_check', 'job.PullRequestJob.author_bypass',
        'branches.FeatureBranch.__init__ (ticket key extraction)']
    rep.bounds = dict(fix_versions='arbitrary subset of a 6-version universe per target list',
                      sources=[s[0] for s in SOURCES], target_lists=[t[1] for t in TARGETS])
    rep.assumptions += ['when several conditions fail, the message of the first one in the '
                        'statement order is expected (ticket missing, not found, project, type, versions)']
    rep.outside_claim += ['computation of the expected versions (C09)', 'the Jira client itself']
    cfgs = [(si, ti) for si in range(len(SOURCES)) for ti in range(len(TARGETS))]
    if rep.tier == 'quick':
        cfgs = [c for c in cfgs if c[0] in (0, 2) or c[1] == 0]
    outs = common.pmap(_run, cfgs)
    classes = set()
    for cfg, results, st in outs:
        rep.add_stats(st, 'source=%s targets=%s' % (SOURCES[cfg[0]][0], TARGETS[cfg[1]][1]))
        seen = set()
        for _, r in results:
            classes.add(r['out'])
            if r['bad'] is not None and r['out'] not in seen:
                seen.add(r['out'])
                data = dict(si=cfg[0], ti=cfg[1], vals=r['bad'])
                rep.cexs.append(Cex('C11', 'ticket gate outcome %s contradicts the statement' % r['out'],
                                    data, replay(data),
                                    'source %s targets %s: outcome %s on %r' % (
                                        SOURCES[cfg[0]][0], TARGETS[cfg[1]][1], r['out'], r['bad'])))
        wits = [r['wit'] for _, r in results if r['wit']]
        for i in common.sample_indices(len(wits), 60, rep.seed):
            p, out, ok = concrete(cfg[0], cfg[1], wits[i])
            if not p or out not in ok:
                rep.error('witness replay mismatch %r %r' % (cfg, wits[i]))
                break
            rep.validated += 1
        if wits and cfg == (0, 0):
            rep.sample(dict(source=SOURCES[0][0], targets=TARGETS[0][1], inputs=wits[0]))
    need = {'pass', 'MissingJiraId', 'JiraIssueNotFound', 'IncorrectJiraProject',
            'IssueTypeNotSupported', 'IncorrectFixVersion'}
    if not need <= classes:
        rep.error('vacuity: outcome classes reached %s' % sorted(classes))
    tw, st = explore(make_harness((0, 0), twin=True))
    if not any(r['bad'] is not None for _, r in tw):
        rep.error('reachability twin not refuted')
    lemmas(rep)
    # the per-author settings as a source of these bypasses (real loader + accessors)
    from . import authoropts
    authoropts.check(rep, 'C11', ['bypass_jira_check'])
    # the gate along histories: complete jobs, the ticket edited between evaluations (DESIGN 11)
    from . import histcheck
    histcheck.check(rep, 'C11')
