"""Bounded *histories* of jobs on the symbolic repository (and on a real one).

gitprops.py checks single jobs from an arbitrary repository state (inductive
step).  This module chains several jobs of the real code on one repository -
every job is a fresh clone of whatever the previous jobs (or a crash, or a
server refusal, or a third party) left on the remote - so that properties about
sequences can be decided: convergence of re-evaluation (C10), recovery after a
crash or a refused ref (C02), one integration branch per target whatever the
order of events (C19), and the C01 / C03 / C08 monitors along the way.

Symbolic: the commit graph between the branches that exist before the history,
merge conflicts and build results (both functions of the *content* of the
commits involved, see symgit.content_keyed), the crash point, the refused ref.
Enumerated: the cascade shape, the mode, the script (list of events).

The same script runs on two back ends: SymSession (symgit) and RealSession
(/usr/bin/git, used to replay counterexamples and witnesses).
"""
import os
import z3

from symx.core import HarnessError, model_value
import symgit
from symgit import SymRepo, SSha
from . import gitflow as GF

ROBOT = 'robot'
OK = symgit.STATUSES.index('SUCCESSFUL')


class Crash(BaseException):
    """Bert-E dies here: nothing later in this job happens."""


from .common import HostNames


class Comment(HostNames):
    def __init__(self, cid, author, text):
        self.id = cid
        self.author = author
        self.text = text

    def __repr__(self):
        return '<%s: %s>' % (self.author, self.text[:60])


class HPR(HostNames):
    """Pull request of the history host (both back ends)."""

    def __init__(self, host, pid, src, dst, author='contributor', description=''):
        self.host = host
        self.id = pid
        self.src_branch = src
        self.dst_branch = dst
        self.author = author
        self.author_display_name = author
        self.title = 'title of %d' % pid
        self.description = description
        self.comments = []
        self.declined = False
        self.approvers = None          # None: approved by the author and a peer

    @property
    def src_commit(self):
        # the host's view of the source branch tip (no lag modelled)
        s = self.host.session
        return s.tip_sha(self.src_branch) if s.has_ref(self.src_branch) else None

    @src_commit.setter
    def src_commit(self, value):
        pass

    @property
    def status(self):
        if self.declined:
            return 'DECLINED'
        # what a git host shows: merged as soon as the destination contains the source
        if self.host.session.is_merged(self.src_branch, self.dst_branch):
            return 'MERGED'
        return 'OPEN'

    def add_comment(self, msg):
        self.host.write('comment on #%d' % self.id)
        self.comments.append(Comment(len(self.comments) + 1, ROBOT, msg))
        self.host.effects.append(('comment', self.id, msg))

    def set_bot_status(self, *a, **k):
        pass

    def decline(self):
        self.host.write('decline #%d' % self.id)
        self.declined = True
        self.host.effects.append(('decline', self.id))

    def get_approvals(self):
        return [self.author, 'peer'] if self.approvers is None else list(self.approvers)

    def get_participants(self):
        return [self.author, 'peer'] if self.approvers is None else list(self.approvers)

    def get_change_requests(self):
        return []


class HistHost:
    def __init__(self, session, prs):
        self.session = session
        self.prs = {p.id: HPR(self, p.id, p.src, p.dst) for p in prs}
        self.effects = []          # host writes of the current job
        self.full_name = 'owner/slug'
        self.next_id = max([p.id for p in prs] + [0]) + 100
        self.asked = []

    def write(self, what):
        self.session.boundary('host: ' + what)

    def get_pull_request(self, pid):
        return self.prs[int(pid)]

    def get_pull_requests(self, src_branch=None, author=None, status='OPEN'):
        names = src_branch if isinstance(src_branch, (list, tuple, set)) else [src_branch]
        return [p for p in self.prs.values() if src_branch is None or p.src_branch in names]

    def create_pull_request(self, title, src_branch, dst_branch, description, **kw):
        self.write('create pull request %s -> %s' % (src_branch, dst_branch))
        pid = self.next_id
        self.next_id += 1
        h = HPR(self, pid, str(src_branch), str(dst_branch), author=ROBOT, description=description)
        h.title = title
        self.prs[pid] = h
        self.effects.append(('create_pr', str(src_branch), str(dst_branch)))
        return h

    def get_build_url(self, sha, key):
        return 'http://build/%s/%s' % (key, str(sha).strip())

    def get_commit_url(self, sha):
        return 'http://commit/%s' % str(sha).strip()

    def get_build_status(self, sha, key):
        return self.session.build_status(sha, key)


class BaseSession:
    """Events + bookkeeping common to both back ends."""

    def __init__(self, shape, prs, mode, no_octopus=True, settings=None):
        self.shape = list(shape)
        self.prs = list(prs)
        self.mode = mode
        self.no_octopus = no_octopus
        self.settings = dict(settings or {})
        self.host = HistHost(self, prs)
        self.crash_at = None
        self.nbound = 0
        self.boundaries = []
        self.jobs = []
        self.all_jobs = []         # never rewound by restore()
        self.njobs_total = 0
        self.berte = None
        new_process()              # every history starts in a fresh process

    def make_berte(self):
        s = dict(use_queue=(self.mode != 'noqueue'),
                 skip_queue_when_not_needed=(self.mode == 'skip'),
                 no_octopus=self.no_octopus, need_author_approval=False,
                 required_peer_approvals=0, required_leader_approvals=0,
                 always_create_integration_branches=True,
                 always_create_integration_pull_requests=False, jira_keys=[], jira_email='',
                 jira_account_url='', bypass_prefixes=[], prefixes={}, max_commit_diff=0,
                 disable_version_checks=True, admins=['admin'])
        s.update(self.settings)
        self.berte = GF.make_berte(self.repo, self.host, **s)
        if s.get('jira_account_url'):
            self.install_jira()
        return self.berte

    def install_jira(self):
        """The ticket tracker of this history: issue key -> {type, fix versions} (`jira_set`
        events change it between jobs); an unknown key is a 404."""
        import types
        import bert_e.workflow.gitwaterflow.jira as J
        from jira.exceptions import JIRAError
        if not hasattr(self, 'jira'):
            self.jira = {}
        sess = self

        def JiraIssue(account_url, issue_id, email, token):
            d = sess.jira.get(issue_id)
            if d is None:
                raise JIRAError(status_code=404, text='Issue Does Not Exist')
            return types.SimpleNamespace(
                key=issue_id, fields=types.SimpleNamespace(
                    issuetype=types.SimpleNamespace(name=d['type']),
                    fixVersions=[types.SimpleNamespace(name=v) for v in d['fix']]))
        J.jira_api.JiraIssue = JiraIssue

    def boundary(self, what):
        """Between two remote-mutating operations of a job (each git push, each
        host write): the place where a crash may happen."""
        k = self.nbound
        self.nbound += 1
        self.boundaries.append(what)
        pend = getattr(self, 'pending_during', None)
        if pend is not None and pend[0] == k:
            # a third party acts while the job runs: right before this push / host write
            self.pending_during = None
            self.play([pend[1]])
        if self.crash_at is not None and k == self.crash_at:
            self.crash_at = None
            raise Crash()

    # -- jobs ------------------------------------------------------------------------
    def _run(self, name, fn, crash_at=None):
        """One job, processed the way the server does: BertE.process (which resets
        the long-lived clone object, then dispatches to the registered handler)."""
        from bert_e import exceptions as ex
        from bert_e.lib import git as G
        from bert_e.lib.simplecmd import CommandError
        self.start_job()
        self.host.effects = []
        self.host.asked = []
        mark = self.mark()
        self.nbound = 0
        self.boundaries = []
        self.crash_at = crash_at
        try:
            out = fn() or 'returned'
        except Crash:
            out = 'CRASHED'
        except ex.BertE_Exception as e:
            out = type(e).__name__
        except G.PushFailedException:
            out = 'PushFailed'
        except G.MergeFailedException:
            out = 'MergeFailed'
        except G.RemoveFailedException:
            out = 'RemoveFailed'
        except CommandError:
            out = 'CommandError'
        except HarnessError:
            raise
        except Exception as e:              # what process_task would record as the job status
            out = 'UNEXPECTED:' + type(e).__name__
        finally:
            self.crash_at = None
            self.end_job()
        rec = dict(event=name, out=out, ops=self.ops_since(mark), net=self.net_since(mark),
                   effects=list(self.host.effects), nbound=self.nbound,
                   boundaries=list(self.boundaries))
        self.jobs.append(rec)
        self.all_jobs.append(rec)
        self.njobs_total += 1
        return rec

    def end_job(self):
        pass

    def eval_pr(self, pid, crash_at=None):
        import bert_e.workflow.gitwaterflow as gwf
        from bert_e.job import PullRequestJob

        def fn():
            job = PullRequestJob(bert_e=self.berte, pull_request=self.host.get_pull_request(pid))
            self.berte.process(job)
        return self._run('eval_pr %d' % pid, fn, crash_at)

    def eval_commit(self, ref, crash_at=None):
        import bert_e.workflow.gitwaterflow as gwf
        from bert_e.job import CommitJob
        sha = self.tip_sha(ref)

        def fn():
            job = CommitJob(bert_e=self.berte, commit=sha)
            self.berte.process(job)
        return self._run('eval_commit %s' % ref, fn, crash_at)

    def eval_queues(self, crash_at=None, force_merge=False):
        from bert_e.workflow.gitwaterflow import queueing as Q
        from bert_e.job import QueuesJob

        def fn():
            self.berte.process(QueuesJob(bert_e=self.berte, force_merge=force_merge))
        return self._run('eval_queues', fn, crash_at)

    def serve(self, what, *args):
        """The way the server does it: the job is put in the task queue and the worker loop's
        process_task() takes it.  Outcome = the status the worker recorded for the job, or
        WORKER-DIED if an exception escapes process_task (the worker thread would be gone)."""
        from bert_e.job import PullRequestJob, QueuesJob, CommitJob

        def fn():
            if what == 'queues':
                job = QueuesJob(bert_e=self.berte)
            elif what == 'pr':
                job = PullRequestJob(bert_e=self.berte, pull_request=self.host.get_pull_request(args[0]))
            else:
                job = CommitJob(bert_e=self.berte, commit=self.tip_sha(args[0]))
            self.berte.put_job(job)
            try:
                self.berte.process_task()
            except Crash:
                raise
            except Exception as e:
                return 'WORKER-DIED:' + type(e).__name__
            if 'current job' in self.berte.status or not job.done:
                return 'WORKER-STATE:' + str(job.status)
            return str(job.status)
        return self._run('serve %s %s' % (what, ' '.join(map(str, args))), fn)

    def delete_queues(self, crash_at=None):
        from bert_e.jobs.delete_queues import delete_queues, DeleteQueuesJob

        def fn():
            self.berte.process(DeleteQueuesJob(bert_e=self.berte, settings={}))
        return self._run('delete_queues', fn, crash_at)

    def _api_job(self, name, cls_path, settings, crash_at=None):
        import importlib
        mod, cls = cls_path.rsplit('.', 1)
        cls = getattr(importlib.import_module(mod), cls)
        self.put_log = []

        def fn():
            job = cls(bert_e=self.berte, settings=dict(settings))
            orig_put = self.berte.put_job
            self.berte.put_job = lambda j: self.put_log.append(j)
            try:
                self.berte.process(job)
            finally:
                self.berte.put_job = orig_put
        rec = self._run(name, fn, crash_at)
        rec['put'] = [getattr(getattr(j, 'pull_request', None), 'id', None) for j in self.put_log]
        return rec

    def create_branch(self, branch, branch_from='', crash_at=None):
        st = {'branch': branch}
        if branch_from:
            st['branch_from'] = branch_from
        return self._api_job('create_branch %s' % branch, 'bert_e.jobs.create_branch.CreateBranchJob', st, crash_at)

    def delete_branch(self, branch, crash_at=None):
        return self._api_job('delete_branch %s' % branch, 'bert_e.jobs.delete_branch.DeleteBranchJob',
                             {'branch': branch}, crash_at)

    def rebuild_queues(self, crash_at=None):
        return self._api_job('rebuild_queues', 'bert_e.jobs.rebuild_queues.RebuildQueuesJob', {}, crash_at)

    def force_merge_queues(self, crash_at=None):
        return self._api_job('force_merge_queues', 'bert_e.jobs.force_merge_queues.ForceMergeQueuesJob', {},
                             crash_at)

    # -- things that happen outside Bert-E -------------------------------------------------
    def user_comment(self, pid, author, text):
        p = self.host.prs[pid]
        p.comments.append(Comment(len(p.comments) + 1, author, text))

    def decline(self, pid):
        self.host.prs[pid].declined = True

    def play(self, script):
        """Run a list of events; returns the job records of the job events."""
        recs = []
        for ev in script:
            kind, args = ev[0], ev[1:]
            if kind == 'serve':
                recs.append(self.serve(*args))
            elif kind in ('eval_pr', 'eval_commit', 'eval_queues', 'delete_queues', 'create_branch',
                          'delete_branch', 'rebuild_queues', 'force_merge_queues'):
                if kind == 'eval_commit' and not self.has_ref(args[0]):
                    continue
                recs.append(getattr(self, kind)(*args))
            elif kind == 'src_push':
                self.third_party_commit(self.host.prs[args[0]].src_branch, *args[1:])
            elif kind == 'ref_push':            # somebody pushes a commit of his own on that branch
                self.third_party_commit(*args)
            elif kind == 'comment':
                self.user_comment(*args)
            elif kind == 'uncomment':          # the user deletes his comments with that text
                p = self.host.prs[args[0]]
                p.comments = [c for c in p.comments if not (c.author != ROBOT and c.text == args[1])]
            elif kind == 'decline':
                self.decline(args[0])
            elif kind == 'during':              # ('during', k, event): the event happens while the next job runs,
                self.pending_during = (args[0], args[1])    # right before its k-th push / host write
            elif kind == 'jira_set':            # the ticket is edited (None: deleted / never existed)
                if not hasattr(self, 'jira'):
                    self.jira = {}
                if args[1] is None:
                    self.jira.pop(args[0], None)
                else:
                    self.jira[args[0]] = dict(type=args[1], fix=list(args[2]))
            elif kind == 'approvals':           # reviewers approve / withdraw on the host
                self.host.prs[args[0]].approvers = None if args[1] is None else list(args[1])
            elif kind == 'resolve':             # the author resolves the conflict on w/<target>/<src> by hand
                p = self.host.prs[args[0]]
                t = args[1]
                ts = GF.targets(self.shape, p.dst_branch)
                k = ts.index(t)
                prev = p.src_branch if k == 1 else 'w/%s/%s' % (GF.version_of(ts[k - 1]), p.src_branch)
                self.third_party_merge('w/%s/%s' % (GF.version_of(t), p.src_branch), t, prev, *args[2:])
            elif kind == 'ref_create':          # a third party creates a branch (between jobs)
                self.third_party_branch(*args)
            elif kind == 'ref_delete':          # its owners delete a branch on the host
                self.third_party_delete(*args)
            elif kind == 'fetch_fault':         # the next refresh of the mirror cache fails
                self.set_fetch_fault()
            elif kind == 'race_push':           # somebody pushes to that branch while the next job clones
                self.set_race(args[0])
            elif kind == 'tag_delete':          # a release tag is removed on the host
                self.third_party_tag_delete(args[0])
            elif kind == 'new_machine':         # the robot moves to a machine without mirror cache
                self.drop_cache()
            elif kind == 'tmp_reaper':          # the previous job's scratch directory vanished (tmp cleaner)
                import shutil
                d = getattr(self.repo, 'tmp_directory', None)
                if d and os.path.isdir(d):
                    shutil.rmtree(d, ignore_errors=True)
            elif kind == 'new_server':
                self.new_server()
            else:
                raise HarnessError('unknown event %r' % (ev,))
        return recs


def new_process():
    """A freshly started server is a new process: whatever the code memoises at module level
    (functools caches on functions and methods of bert_e modules) starts empty."""
    import sys
    import inspect
    import functools
    wrapper = type(functools.lru_cache()(lambda: None))
    for name, mod in list(sys.modules.items()):
        if not (name == 'bert_e' or name.startswith('bert_e.')) or mod is None:
            continue
        objs = list(vars(mod).values())
        for o in list(objs):
            if inspect.isclass(o) and o.__dict__.get('__module__') == name:
                objs += list(vars(o).values())
        for o in objs:
            f = o.__func__ if isinstance(o, (staticmethod, classmethod)) else o
            if isinstance(f, wrapper):
                f.cache_clear()


def quiet(rec):
    """The job changed nothing observable: no ref update, no host write."""
    return not rec['ops'] and not rec['effects']


# -------------------------------------------------------------------------------------------
class SymSession(BaseSession):
    """History on the symbolic repository."""
    counter = 0

    def __init__(self, ctx, shape, prs, mode, no_octopus=True, nfresh=40, extra_refs=(),
                 with_w=False, natoms=None, settings=None, monitors=(), fresh_prs=True,
                 green=False, no_conflicts=False, log_cut=True, tags=(), no_qrefs=False):
        self.ctx = ctx
        refs = list(shape) + [p.src for p in prs] + list(extra_refs)
        if with_w:
            for p in prs:
                refs += [GF.w_name(p, t) for t in GF.targets(shape, p.dst)[1:]]
        # (no_qrefs: a repository where nothing was ever queued - the queue branches do not exist yet)
        qrefs = ['q/' + GF.version_of(d) for d in shape] if mode != 'noqueue' and not no_qrefs else []
        if natoms is None:
            natoms = len(refs) + 1
        repo = SymRepo(ctx, refs + qrefs, natoms, nfresh, tags=tags)
        SymSession.counter += 1
        repo._url = 'sym://host/r%d_%d' % (os.getpid(), SymSession.counter)    # its own mirror cache
        repo.model_clone = True
        repo.content_keyed = True
        repo.log_cut = log_cut
        repo.log_model = not log_cut
        repo.no_conflicts = no_conflicts      # bound of some histories: merges never conflict
        self.green = green                    # bound of some histories: every build is green
        GF.assume_inclusion(ctx, repo, shape)
        for d in shape:
            if 'q/' + GF.version_of(d) in repo.remote:
                ctx.assume(repo.remote['q/' + GF.version_of(d)] == repo.remote[d])
        if fresh_prs:
            # a pull request that was just opened: its changes are on none of its targets
            for p in prs:
                for t in GF.targets(shape, p.dst):
                    ctx.assume(z3.Not(repo.subset_t(repo.cl(repo.remote[p.src]), repo.cl(repo.remote[t]))))
            # ... and the pull requests are independent: no source branch contains another
            for p in prs:
                for q in prs:
                    if p is not q:
                        ctx.assume(z3.Not(repo.subset_t(repo.cl(repo.remote[p.src]),
                                                        repo.cl(repo.remote[q.src]))))
        self.repo = repo
        repo.boundary = lambda r, what: self.boundary(what)
        repo.monitors = list(monitors)
        self.status_queries = []
        self.pushed_atoms = []
        repo.raced = self.pushed_atoms        # commits pushed by others, in the order they happen
        self.snapshots = []
        super().__init__(shape, prs, mode, no_octopus, settings)
        self.make_berte()

    def start_job(self):
        # the local clone of the job that starts: the model clones at once (the
        # handlers only read the clone after clone_git_repo); the ls-remote cache is
        # NOT touched here - BertE.process / Repository.reset own it
        r = self.repo
        roots = list(r.remote.values()) + list(r.remote_tags.values())
        for snap in self.snapshots:
            roots += list(snap['remote'].values()) + list(snap['tags'].values())
            roots += list((snap.get('cache') or {}).values()) + list((snap.get('cache_tags') or {}).values())
        r.gc_fresh(roots)
        if r.cache is not None:
            roots += list(r.cache.values()) + list(r.cache_tags.values())
            r.gc_fresh(roots)
        r.job_pre_remote = dict(r.remote)
        # the local clone is made by the real Repository.clone() (mirror cache -> working copy)
        r.tip = {}
        r.tracking = {}
        r.tags = {}
        r.head = None
        r.rejected = {}
        r.refused = []

    def new_server(self):
        """A freshly started server: a new Repository object (empty caches)."""
        r = self.repo
        r.tmp_directory = None
        r.cmd_directory = None
        r._remote_branches = {}
        r._remote_heads = {}
        new_process()
        self.make_berte()

    def mark(self):
        return (len(self.repo.remote_ops), dict(self.repo.remote), dict(self.repo.remote_tags))

    def ops_since(self, mark):
        return [(o['kind'], o['ref']) for o in self.repo.remote_ops[mark[0]:]
                if o['kind'] in ('update', 'delete', 'tag')]

    def net_since(self, mark):
        """Net effect of the job on the server (what a before/after comparison of
        the real remote sees)."""
        _, h0, t0 = mark
        h1, t1 = self.repo.remote, self.repo.remote_tags
        ops = []
        for r in sorted(set(h0) | set(h1)):
            if r not in h1:
                ops.append(('delete', r))
            elif r not in h0 or not z3.eq(z3.simplify(h0[r]) if z3.is_expr(h0[r]) else z3.IntVal(h0[r]),
                                          z3.simplify(h1[r]) if z3.is_expr(h1[r]) else z3.IntVal(h1[r])):
                ops.append(('update', r))
        for t in sorted(set(t1) - set(t0)):
            ops.append(('tag', t))
        return ops

    def has_ref(self, ref):
        return ref in self.repo.remote

    def tip_sha(self, ref):
        return SSha(self.repo, self.repo.remote[ref])

    def is_merged(self, src, dst):
        r = self.repo
        if src not in r.remote or dst not in r.remote:
            return False
        return r.subset(r.cl(r.remote[src]), r.cl(r.remote[dst]))

    def build_status(self, sha, key):
        from symx.core import SEnum
        if not isinstance(sha, SSha):
            raise HarnessError('get_build_status on %r' % (sha,))
        r = self.repo
        self.host.asked.append((sha, key))
        if key != GF.BUILD_KEY:
            t = r.ctx.fresh_int('status_other_key')
            r.ctx.assume(z3.And(t >= 0, t < len(symgit.STATUSES)))
        else:
            # three classes of build result (SUCCESSFUL / FAILED / INPROGRESS): STOPPED
            # behaves as FAILED and NOTSTARTED as INPROGRESS in every handler
            c = r.content(sha.idx)
            t = r.statusC(c)
            r.ctx.assume(z3.And(t >= 0, t < 3))
            if self.green:
                r.ctx.assume(t == OK)
            self.status_queries.append((c, t))
        return SEnum(t, symgit.STATUSES)

    def third_party_commit(self, ref, atom=None):
        r = self.repo
        if ref not in r.remote:
            return
        a = r.fresh(r.cl(r.remote[ref]), 'third-party commit on ' + ref, parents=[r.remote[ref]])
        r.remote[ref] = a
        self.pushed_atoms.append(a.as_long())

    def third_party_branch(self, name, at_ref):
        r = self.repo
        if at_ref in r.remote:
            r.remote[name] = r.remote[at_ref]

    def third_party_merge(self, ref, base_ref, other_ref, atom=None):
        """The author resolves a conflict by hand: `ref` := a new commit (with content
        of its own) on top of base_ref that also contains other_ref."""
        r = self.repo
        if base_ref not in r.remote or other_ref not in r.remote:
            return
        a = r.fresh(r.cl(r.remote[base_ref]) | r.cl(r.remote[other_ref]),
                    'manual resolution on ' + ref, parents=[r.remote[base_ref], r.remote[other_ref]])
        r.remote[ref] = a
        self.pushed_atoms.append(a.as_long())

    def third_party_delete(self, name):
        self.repo.remote.pop(name, None)

    def set_fetch_fault(self):
        self.repo.fetch_fault = True

    def set_race(self, ref):
        self.repo.race_ref = ref

    def set_fail_push(self, k):
        self.repo.fail_push_at = k

    def set_refuse_pushes(self, k):
        self.repo.fail_push_from = k

    def third_party_tag_delete(self, tag):
        self.repo.remote_tags.pop(tag, None)

    def drop_cache(self):
        import shutil
        r = self.repo
        r.cache = None
        r.cache_tags = None
        slug = r._url.split('/')[-1].replace('.git', '')
        shutil.rmtree(os.path.join(os.path.expanduser('~/.bert-e'), slug + '.git'), ignore_errors=True)

    # -- snapshots (to run two continuations of one prefix on the same path) ----------------
    def snapshot(self):
        r = self.repo
        snap = dict(remote=dict(r.remote), tags=dict(r.remote_tags),
                    cache=None if r.cache is None else dict(r.cache),
                    cache_tags=None if r.cache_tags is None else dict(r.cache_tags),
                    prs=dict(self.host.prs),
                    comments={i: list(p.comments) for i, p in self.host.prs.items()},
                    declined={i: p.declined for i, p in self.host.prs.items()},
                    next_id=self.host.next_id, jobs=list(self.jobs))
        self.snapshots.append(snap)       # its commits stay alive (see gc_fresh)
        return snap

    def restore(self, snap, new_server=True):
        r = self.repo
        r.remote = dict(snap['remote'])
        r.remote_tags = dict(snap['tags'])
        r.cache = None if snap['cache'] is None else dict(snap['cache'])
        r.cache_tags = None if snap['cache_tags'] is None else dict(snap['cache_tags'])
        self.host.prs = dict(snap['prs'])
        for i, p in self.host.prs.items():
            p.comments = list(snap['comments'][i])
            p.declined = snap['declined'][i]
        self.host.next_id = snap['next_id']
        self.jobs = list(snap['jobs'])
        if new_server:
            self.new_server()

    # -- observations --------------------------------------------------------------------------
    def content_of(self, ref):
        r = self.repo
        return r.content(r.remote[ref]) if ref in r.remote else None

    def world(self, m):
        """Concrete pre-state and choices under model m (for RealSession)."""
        r = self.repo
        w = r.concretize(m)
        w['conflicts'] = []
        for d, c1, c2, took in r.conflict_queries:
            if took:
                w['conflicts'].append([model_value(m, d), model_value(m, c1), model_value(m, c2)])
        w['status_by_content'] = {}
        for c, t in self.status_queries:
            w['status_by_content'][str(model_value(m, c))] = symgit.STATUSES[
                model_value(m, t) % len(symgit.STATUSES)]
        return w


# -------------------------------------------------------------------------------------------
class RealSession(BaseSession):
    """The same history on a real repository built from a concrete world."""

    def __init__(self, world_data, shape, prs, mode, no_octopus=True, settings=None, log_cut=True):
        from symgit.realgit import RealWorld
        self.w = world_data
        reject = [r for r, b in world_data.get('rejected', {}).items() if b]
        self.world = RealWorld(world_data['anc'], world_data['refs'], world_data.get('tags'))
        self.repo = self.world.repository()
        self.status_by_content = dict(world_data.get('status_by_content', {}))
        self.next_atom = world_data['N']
        self.reject_next = None
        self.tp_heads = {}
        self.log_cut = log_cut
        super().__init__(shape, prs, mode, no_octopus, settings)
        self.make_berte()
        self._patch()

    def _patch(self):
        from bert_e.lib import git as G
        sess = self
        self._orig_cmd = G.Repository.cmd

        def cmd(rself, command, *args, **kw):
            if rself is sess.repo and command.startswith('git push'):
                sess.boundary(command % args if args else command)
                if getattr(sess, 'fail_push_at', None) is not None:
                    sess.push_seen += 1
                    if sess.push_seen == sess.fail_push_at:
                        from bert_e.lib.simplecmd import CommandError
                        raise CommandError('Command %s returned with code 128: fatal: the remote end hung up '
                                           'unexpectedly' % command)
                if getattr(sess, 'fail_push_from', None) is not None:
                    sess.push_seen_all = getattr(sess, 'push_seen_all', 0) + 1
                    if sess.push_seen_all >= sess.fail_push_from:
                        from bert_e.lib.simplecmd import CommandError
                        raise CommandError('Command %s returned with code 128: fatal: the remote end hung up '
                                           'unexpectedly' % command)
            if rself is sess.repo and command.startswith('git log') and sess.log_cut:
                return ''       # the same cut as in the model (symgit.log_cut)
            if rself is sess.repo and command.startswith('git merge '):
                full = command % args if args else command
                if sess._merge_conflicts(rself, full):
                    from bert_e.lib.simplecmd import CommandError
                    raise CommandError('Command %s returned with code 1: CONFLICT (content): as the model says' % full)
            if rself is sess.repo and command.startswith('git remote update') and getattr(sess, 'race_ref', None):
                r, sess.race_ref = sess.race_ref, None
                sess.third_party_commit(r)
            if rself is sess.repo and command.startswith('git fetch') and getattr(sess, 'fail_fetch', False):
                from bert_e.lib.simplecmd import CommandError
                sess.fail_fetch = False
                raise CommandError('Command git fetch --prune returned with code 128: fatal: unable to access')
            return sess._orig_cmd(rself, command, *args, **kw)
        G.Repository.cmd = cmd

    def close(self):
        from bert_e.lib import git as G
        G.Repository.cmd = self._orig_cmd
        try:
            self.repo.delete()
        except Exception:
            pass
        self.world.cleanup()

    def start_job(self):
        pass

    def new_server(self):
        try:
            self.repo.delete()
        except Exception:
            pass
        self.repo = self.world.repository()
        new_process()
        self.make_berte()

    def end_job(self):
        self.world.set_reject([])

    def mark(self):
        return (self.world.heads(), self.world.tag_refs())

    def ops_since(self, mark):
        h0, t0 = mark
        h1, t1 = self.world.heads(), self.world.tag_refs()
        ops = []
        for r in sorted(set(h0) | set(h1)):
            if r not in h1:
                ops.append(('delete', r))
            elif h0.get(r) != h1[r]:
                ops.append(('update', r))
        for t in sorted(set(t1) - set(t0)):
            ops.append(('tag', t))
        return ops

    def net_since(self, mark):
        return self.ops_since(mark)

    def has_ref(self, ref):
        return ref in self.world.heads()

    def tip_sha(self, ref):
        return self.world.heads()[ref]

    def is_merged(self, src, dst):
        h = self.world.heads()
        if src not in h or dst not in h:
            return False
        return self.world.is_ancestor(h[src], h[dst])

    def content_mask(self, sha):
        from symgit.realgit import git
        out = git(self.world.bare, 'ls-tree', '--name-only', sha)
        m = 0
        for line in out.splitlines():
            if line.startswith('a') and line[1:].isdigit():
                m |= 1 << int(line[1:])
        return m

    def build_status(self, sha, key):
        from symgit.realgit import git
        full = git(self.world.bare, 'rev-parse', sha.strip())
        self.host.asked.append((full, key))
        if key != GF.BUILD_KEY:
            return 'NOTSTARTED'
        return self.status_by_content.get(str(self.content_mask(full)), 'NOTSTARTED')

    def third_party_commit(self, ref, atom=None):
        from symgit.realgit import git
        h = self.world.heads()
        if ref not in h:
            return
        i = atom if atom is not None else self.next_atom
        self.next_atom = max(self.next_atom, i) + 1
        bare = self.world.bare
        blob = git(bare, 'hash-object', '-w', '--stdin', inp='atom %d\n' % i)
        listing = git(bare, 'ls-tree', h[ref])
        tree = git(bare, 'mktree', inp=listing + '\n100644 blob %s\ta%02d\n' % (blob, i))
        c = git(bare, 'commit-tree', tree, '-p', h[ref], '-m', 'third party commit %d' % i)
        git(bare, 'update-ref', 'refs/heads/' + ref, c)
        self.tp_heads[ref] = c          # what its owner last wrote (for the foreign-ref monitor)

    def content_of(self, ref):
        h = self.world.heads()
        return self.content_mask(h[ref]) if ref in h else None

    def third_party_branch(self, name, at_ref):
        from symgit.realgit import git
        h = self.world.heads()
        if at_ref in h:
            git(self.world.bare, 'update-ref', 'refs/heads/' + name, h[at_ref])

    def third_party_delete(self, name):
        from symgit.realgit import git
        if name in self.world.heads():
            git(self.world.bare, 'update-ref', '-d', 'refs/heads/' + name)

    def third_party_merge(self, ref, base_ref, other_ref, atom=None):
        from symgit.realgit import git
        h = self.world.heads()
        if base_ref not in h or other_ref not in h:
            return
        i = atom if atom is not None else self.next_atom
        self.next_atom = max(self.next_atom, i) + 1
        bare = self.world.bare
        blob = git(bare, 'hash-object', '-w', '--stdin', inp='atom %d\n' % i)
        lines = set(git(bare, 'ls-tree', h[base_ref]).splitlines()) | set(git(bare, 'ls-tree', h[other_ref]).splitlines())
        lines.add('100644 blob %s\ta%02d' % (blob, i))
        tree = git(bare, 'mktree', inp='\n'.join(sorted(lines, key=lambda l: l.split('\t')[1])) + '\n')
        c = git(bare, 'commit-tree', tree, '-p', h[base_ref], '-p', h[other_ref], '-m', 'manual resolution %d' % i)
        git(bare, 'update-ref', 'refs/heads/' + ref, c)

    def _merge_conflicts(self, rself, full):
        """Would this `git merge` conflict according to the model's conflict function?"""
        import shlex
        import subprocess
        table = set(tuple(x) for x in self.w.get('conflicts', []))
        if not table:
            return False
        cwd = rself.cmd_directory

        def g(*a, check=True):
            r = subprocess.run(['git'] + list(a), cwd=cwd, stdout=subprocess.PIPE, stderr=subprocess.PIPE, text=True)
            return r.stdout.strip() if check else r.returncode

        def mask(rev):
            m = 0
            for line in g('ls-tree', '--name-only', rev).splitlines():
                if line.startswith('a') and line[1:].isdigit():
                    m |= 1 << int(line[1:])
            return m
        srcs = [t for t in shlex.split(full)[2:] if not t.startswith('--')]
        live = [x for x in srcs if g('merge-base', '--is-ancestor', x, 'HEAD', check=False) != 0]
        red = []
        for k, x in enumerate(live):
            dom = False
            for j, y in enumerate(live):
                if j == k:
                    continue
                if g('merge-base', '--is-ancestor', x, y, check=False) == 0:
                    if g('merge-base', '--is-ancestor', y, x, check=False) == 0 and k < j:
                        continue
                    dom = True
                    break
            if not dom:
                red.append(x)
        if not red:
            return False
        if len(red) == 1 and g('merge-base', '--is-ancestor', 'HEAD', red[0], check=False) == 0 \
                and '--no-ff' not in full:
            return False            # fast-forward
        key = (mask('HEAD'), mask(red[0]), mask(red[1]) if len(red) > 1 else 0)
        return key in table

    def set_fetch_fault(self):
        self.fail_fetch = True

    def set_race(self, ref):
        self.race_ref = ref

    def set_fail_push(self, k):
        self.fail_push_at = k
        self.push_seen = 0

    def set_refuse_pushes(self, k):
        self.fail_push_from = k
        self.push_seen_all = 0

    def third_party_tag_delete(self, tag):
        from symgit.realgit import git
        if tag in self.world.tag_refs():
            git(self.world.bare, 'update-ref', '-d', 'refs/tags/' + tag)

    def drop_cache(self):
        import shutil
        slug = self.repo._url.split('/')[-1].replace('.git', '')
        shutil.rmtree(os.path.join(os.path.expanduser('~/.bert-e'), slug + '.git'), ignore_errors=True)

    # commits are immutable: a snapshot of the server is its ref table
    def snapshot(self):
        return dict(heads=self.world.heads(), tags=self.world.tag_refs(),
                    prs=dict(self.host.prs),
                    comments={i: list(p.comments) for i, p in self.host.prs.items()},
                    declined={i: p.declined for i, p in self.host.prs.items()},
                    next_id=self.host.next_id, jobs=list(self.jobs))

    def restore(self, snap, new_server=True):
        from symgit.realgit import git
        bare = self.world.bare
        for r in self.world.heads():
            if r not in snap['heads']:
                git(bare, 'update-ref', '-d', 'refs/heads/' + r)
        for r, sha in snap['heads'].items():
            git(bare, 'update-ref', 'refs/heads/' + r, sha)
        for t in self.world.tag_refs():
            if t not in snap['tags']:
                git(bare, 'update-ref', '-d', 'refs/tags/' + t)
        self.host.prs = dict(snap['prs'])
        for i, p in self.host.prs.items():
            p.comments = list(snap['comments'][i])
            p.declined = snap['declined'][i]
        self.host.next_id = snap['next_id']
        self.jobs = list(snap['jobs'])
        if new_server:
            self.new_server()
