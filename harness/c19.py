"""C19 - integration branches and pull requests are kept one-to-one with their PR.

(a) naming is injective / parses back (C18 lemmas re-run on the templates used
    here) and create_integration_branches on symgit creates exactly the refs
    w/<version>/<source> for the targets beyond the first;
(b) create_integration_pull_requests / get_or_create_pull_request /
    get_pull_request_from_list as an inductive step on a host holding up to
    three pull requests with symbolic source / destination / status;
(c) redirection: an event on a robot-authored pull request is handled as an event
    on the parent (the parent id is the first digit run of the rendered
    description - z3 string query on the live template), an event on a w/ or
    source commit resolves to the parent pull request (lowest id);
(d) handle_declined_pull_request declines exactly the open integration pull
    requests of the parent and deletes exactly its integration branches.
"""
import re
import types
import z3

from symx.core import SBool, SEnum, explore, model_value, HarnessError, PathAbort, Ctx
from symx.report import Cex
import rx2z3 as R
import symgit
from symgit import SymRepo
from . import common, gitflow as GF
from .gitflow import PR

SHAPE = ['development/4.3', 'development/5.1', 'development/10.0']
SRC = 'bugfix/PROJ-7-fix'
STAT = ['OPEN', 'DECLINED', 'MERGED']


def wnames():
    return [SRC] + ['w/%s/%s' % (GF.version_of(d), SRC) for d in SHAPE[1:]]


# ---------------------------------------------------------------------------
# (b) integration pull requests, inductive step
def pr_step(ctx, npre, sym=True, vals=None):
    from bert_e.workflow.gitwaterflow import branches as B, integration as I
    names = wnames()
    srcs = names + ['w/5.1/feature/other']
    dsts = SHAPE + ['development/9.9']
    repo = types.SimpleNamespace(cmd=lambda *a, **k: '')
    dst_objs = [B.branch_factory(repo, d) for d in SHAPE]
    wbs = []
    for k, d in enumerate(dst_objs):
        w = B.GhostIntegrationBranch(repo, SRC, dst_objs[0]) if k == 0 else B.branch_factory(repo, names[k])
        w.dst_branch = d
        wbs.append(w)
    existing = []
    created = []
    V = {}
    # the robot may have (re-)created an integration branch in this very job although an open
    # integration pull request for it is still on the host (the branch was deleted by hand, or a
    # reset could not decline the pull request): `newly_created` is free
    for k in range(1, len(wbs)):
        if sym:
            V['nc%d' % k] = z3.Bool('newly_created%d' % k)
            wbs[k].newly_created = ctx.decide(V['nc%d' % k])
        else:
            wbs[k].newly_created = bool(vals.get('nc%d' % k, False))

    class HPR:
        def __init__(self, pid, src, dst, status, title=''):
            self.id, self.src_branch, self.dst_branch, self.status, self.title = pid, src, dst, status, title

    parent = HPR(1, SRC, SHAPE[0], 'OPEN', 'Fix the thing')
    existing.append(parent)
    for i in range(npre):
        if sym:
            s = z3.Int('src%d' % i)
            d = z3.Int('dst%d' % i)
            st = z3.Int('st%d' % i)
            ctx.assume(z3.And(s >= 1, s < len(srcs), d >= 0, d < len(dsts), st >= 0, st < 3))
            V.update({'src%d' % i: s, 'dst%d' % i: d, 'st%d' % i: st})
            existing.append(HPR(10 + i, SEnum(s, srcs), SEnum(d, dsts), SEnum(st, STAT)))
        else:
            existing.append(HPR(10 + i, srcs[vals['src%d' % i]], dsts[vals['dst%d' % i]],
                                STAT[vals['st%d' % i]]))

    class Host:
        def get_pull_requests(self, src_branch=None, **kw):
            out = []
            for p in existing:
                if any(bool(p.src_branch == n) if not isinstance(p.src_branch, str)
                       else p.src_branch == n for n in src_branch):
                    out.append(p)
            return out

        def create_pull_request(self, title, name, src_branch, dst_branch, close_source_branch,
                                description):
            p = HPR(100 + len(created), src_branch, dst_branch, 'OPEN', title)
            created.append(p)
            existing.append(p)
            return p
    if sym:
        always = ctx.decide(z3.Bool('always_create_prs'))
        opt = ctx.decide(z3.Bool('create_pull_requests'))
    else:
        always, opt = vals['always'], vals['opt']
    job = types.SimpleNamespace(
        settings=types.SimpleNamespace(always_create_integration_pull_requests=always,
                                       create_pull_requests=opt),
        project_repo=Host(), pull_request=parent)
    # assume: at most one OPEN pull request per (w-name, destination) before
    if sym:
        for k in range(1, len(names)):
            hits = [z3.And(V['src%d' % i] == srcs.index(names[k]), V['dst%d' % i] == k,
                           V['st%d' % i] == 0) for i in range(npre)]
            ctx.assume(z3.AtMost(*hits, 1) if hits else z3.BoolVal(True))
    prs = I.create_integration_pull_requests(job, wbs)
    return dict(prs=prs, created=created, existing=existing, V=V, always=always, opt=opt,
                names=names, srcs=srcs, dsts=dsts, npre=npre)


def pr_harness(npre, twin=False):
    def h(ctx):
        r = pr_step(ctx, npre)
        V, names, srcs = r['V'], r['names'], r['srcs']
        enabled = r['always'] or r['opt']
        conds = []
        if not enabled:
            conds.append(('integration pull request created although creation is off',
                          z3.BoolVal(not r['created'] and r['prs'] == [])))
        else:
            for k in range(1, len(names)):
                pre_hits = [z3.And(V['src%d' % i] == srcs.index(names[k]), V['dst%d' % i] == k,
                                   V['st%d' % i] == 0) for i in range(npre)]
                pre_open = z3.Or(*pre_hits) if pre_hits else z3.BoolVal(False)
                made = [p for p in r['created'] if p.src_branch == names[k] and p.dst_branch == SHAPE[k]]
                conds.append(('target %d: exactly one open integration pull request afterwards' % k,
                              z3.BoolVal(len(made) == 1) == z3.Not(pre_open)))
                conds.append(('target %d: more than one created' % k, z3.BoolVal(len(made) <= 1)))
                for p in made:
                    want = 'INTEGRATION [PR#1 > %s] Fix the thing' % SHAPE[k]
                    conds.append(('title of the integration pull request', z3.BoolVal(p.title == want)))
                got = r['prs'][k] if len(r['prs']) == len(names) else None
                if got is None:
                    conds.append(('one pull request per target returned', z3.BoolVal(False)))
                else:
                    ok_src = got.src_branch == names[k]
                    ok_dst = got.dst_branch == SHAPE[k]
                    ok_st = got.status == 'OPEN'
                    conds.append(('returned pull request belongs to another branch / target / is closed',
                                  z3.And(*[c.t if isinstance(c, SBool) else z3.BoolVal(bool(c))
                                           for c in (ok_src, ok_dst, ok_st)])))
            others = [p for p in r['created']
                      if not any(p.src_branch == names[k] and p.dst_branch == SHAPE[k]
                                 for k in range(1, len(names)))]
            conds.append(('pull request created for something else', z3.BoolVal(not others)))
        if twin:
            conds.append(('twin', z3.BoolVal(not r['created'])))
        ctx.stats.obligations += len(conds)
        for label, c in conds:
            res, m = ctx.sat_model(z3.Not(c))
            if res == 'sat':
                vals = {k: model_value(m, t) for k, t in V.items()}
                vals.update(always=r['always'], opt=r['opt'])
                return dict(bad=vals, label=label, ncreated=len(r['created']))
        return dict(bad=None, label=None, ncreated=len(r['created']))
    return h


def pr_concrete(npre, vals):
    r = pr_step(None, npre, sym=False, vals=vals)
    names = r['names']
    enabled = vals['always'] or vals['opt']
    if not enabled:
        return bool(r['created']) or r['prs'] != []
    for k in range(1, len(names)):
        pre_open = any(r['srcs'][vals['src%d' % i]] == names[k] and vals['dst%d' % i] == k and
                       vals['st%d' % i] == 0 for i in range(npre))
        made = [p for p in r['created'] if p.src_branch == names[k] and p.dst_branch == SHAPE[k]]
        if (len(made) == 1) != (not pre_open):
            return True
        got = r['prs'][k]
        if not (got.src_branch == names[k] and got.dst_branch == SHAPE[k] and got.status == 'OPEN'):
            return True
    return False


# ---------------------------------------------------------------------------
# (a) integration branches on symgit
def branches_harness(ctx):
    from bert_e.workflow.gitwaterflow import branches as B, integration as I
    names = wnames()
    present = [ctx.decide(z3.Bool('w%d_exists' % k)) for k in range(1, len(names))]
    refs = list(SHAPE) + [SRC] + [n for n, p in zip(names[1:], present) if p] + ['w/5.1/feature/other']
    repo = SymRepo(ctx, refs, len(refs) + 1, 4)
    cascade = B.BranchCascade()
    src = B.branch_factory(repo, SRC)
    dst = B.branch_factory(repo, SHAPE[0])
    job = types.SimpleNamespace(git=types.SimpleNamespace(repo=repo, cascade=cascade, src_branch=src,
                                                          dst_branch=dst), settings=None)
    wbs = list(I.create_integration_branches(job))
    got = [w.name for w in wbs]
    local_w = sorted(r for r in repo.tip if r.startswith('w/'))
    want = sorted(names[1:] + ['w/5.1/feature/other'])
    ok = got == names and local_w == want and not repo.remote_ops
    # a branch that did not exist is created at its destination's tip
    conds = [z3.BoolVal(ok)]
    for k in range(1, len(names)):
        if not present[k - 1]:
            conds.append(repo.tip[names[k]] == repo.tip[SHAPE[k]])
            conds.append(z3.BoolVal(wbs[k].newly_created))
        else:
            conds.append(repo.tip[names[k]] == repo.pre_remote[names[k]])
    ctx.stats.obligations += 1
    return dict(bad=ctx.sat(z3.Not(z3.And(*conds))) == 'sat', got=got, local=local_w)


# ---------------------------------------------------------------------------
# (d) decline
def decline_step(ctx, npre, sym=True, vals=None):
    import bert_e.workflow.gitwaterflow as gwf
    from bert_e.workflow.gitwaterflow import branches as B
    from bert_e.job import PullRequestJob
    from bert_e import exceptions as ex
    names = ['w/%s/%s' % (GF.version_of(d), SRC) for d in SHAPE]   # incl. w/4.3/<src> (never exists)
    srcs = names + ['w/5.1/feature/other', SRC]
    dsts = SHAPE + ['development/9.9']
    present = [False] + [(ctx.decide(z3.Bool('w%d_exists' % k)) if sym else vals['w%d' % k])
                         for k in range(1, len(names))]
    refs = list(SHAPE) + [SRC, 'w/5.1/feature/other', 'q/5.1'] + [n for n, p in zip(names, present) if p]
    if sym:
        repo = SymRepo(ctx, refs, len(refs) + 1, 2)
    else:
        return None
    declined = []
    V = {}

    class HPR:
        def __init__(self, pid, src, dst, status):
            self.id, self.src_branch, self.dst_branch, self.status = pid, src, dst, status

        def decline(self):
            declined.append(self.id)
    existing = []
    for i in range(npre):
        s, d, st = z3.Int('src%d' % i), z3.Int('dst%d' % i), z3.Int('st%d' % i)
        ctx.assume(z3.And(s >= 0, s < len(srcs), d >= 0, d < len(dsts), st >= 0, st < 3))
        V.update({'src%d' % i: s, 'dst%d' % i: d, 'st%d' % i: st})
        existing.append(HPR(10 + i, SEnum(s, srcs), SEnum(d, dsts), SEnum(st, STAT)))

    class Host(GF.Host):
        def get_pull_requests(self, src_branch=None, **kw):
            return [p for p in existing if any(bool(p.src_branch == n) for n in src_branch)]
    host = Host(repo, [PR(1, SRC, SHAPE[0])], ctx)
    berte = GF.make_berte(repo, host)
    probj = host.get_pull_request(1)
    probj.status = 'DECLINED'
    job = PullRequestJob(bert_e=berte, pull_request=probj)
    job.git.cascade = B.BranchCascade()
    job.git.src_branch = B.branch_factory(repo, SRC)
    job.git.dst_branch = B.branch_factory(repo, SHAPE[0])
    try:
        gwf.handle_declined_pull_request(job)
        out = 'returned'
    except ex.PullRequestDeclined:
        out = 'PullRequestDeclined'
    except ex.NothingToDo:
        out = 'NothingToDo'
    return dict(repo=repo, out=out, declined=declined, V=V, names=names, srcs=srcs, present=present,
                npre=npre)


def decline_harness(npre):
    def h(ctx):
        r = decline_step(ctx, npre)
        repo, V, names, srcs = r['repo'], r['V'], r['names'], r['srcs']
        conds = []
        # exactly the existing integration branches of this PR are deleted
        deleted = sorted(o['ref'] for o in repo.remote_ops if o['kind'] == 'delete')
        want_del = sorted(n for n, p in zip(names, r['present']) if p)
        conds.append(('deletes exactly its integration branches', z3.BoolVal(deleted == want_del)))
        updated = [o['ref'] for o in repo.remote_ops if o['kind'] == 'update']
        conds.append(('decline updated a branch', z3.BoolVal(not updated)))
        for i in range(r['npre']):
            mine = z3.Or(*[z3.And(V['src%d' % i] == srcs.index(names[k]), V['dst%d' % i] == k)
                           for k in range(len(names))])
            should = z3.And(mine, V['st%d' % i] == 0)
            was = (10 + i) in r['declined']
            # when several open PRs exist for one (branch, target) only the first is declined
            conds.append(('declines a pull request that is not an open integration pull request of '
                          'this parent', z3.Implies(z3.BoolVal(was), should)))
        for k in range(len(names)):
            cands = [i for i in range(r['npre'])]
            anyopen = z3.Or(*[z3.And(V['src%d' % i] == srcs.index(names[k]), V['dst%d' % i] == k,
                                     V['st%d' % i] == 0) for i in cands]) if cands else z3.BoolVal(False)
            hit = [z3.And(V['src%d' % i] == srcs.index(names[k]), V['dst%d' % i] == k, V['st%d' % i] == 0,
                          z3.BoolVal((10 + i) in r['declined'])) for i in cands]
            conds.append(('an open integration pull request of the parent is left open',
                          z3.Implies(anyopen, z3.Or(*hit) if hit else z3.BoolVal(False))))
        changed = bool(deleted) or bool(r['declined'])
        conds.append(('outcome', z3.BoolVal((r['out'] == 'PullRequestDeclined') == changed)))
        ctx.stats.obligations += len(conds)
        for label, c in conds:
            res, m = ctx.sat_model(z3.Not(c))
            if res == 'sat':
                return dict(bad={k: model_value(m, t) for k, t in V.items()}, label=label,
                            out=r['out'], present=r['present'], declined=r['declined'], deleted=deleted)
        return dict(bad=None, label=None, out=r['out'])
    return h


# ---------------------------------------------------------------------------
# (d') decline through the complete handler, from an arbitrary repository
def handler_decline_harness(shape, mode):
    def h(ctx):
        pr = PR(1, SRC, shape[0])
        refs = GF.handler_refs(shape, pr, mode)
        repo, host, out = GF.scenario_handle_pr(
            ctx, shape, pr, len(refs) + 1, mode, lambda byp, host: [], no_octopus=True,
            pr_status='DECLINED')
        left = sorted(r for r in repo.remote if r.startswith('w/') and r.endswith('/' + SRC))
        other = [o for o in repo.remote_ops if o['kind'] in ('update', 'delete')
                 and not (o['ref'].startswith('w/') and o['ref'].endswith('/' + SRC))]
        bad = []
        if left:
            bad.append('C19 declined parent: integration branches left on the remote')
        if other:
            bad.append('C19 declining the parent touched other refs')
        if out != 'PullRequestDeclined':
            bad.append('C19 declined parent with integration branches answered %s' % out)
        d = None
        if bad:
            r, m = ctx.sat_model()
            v = symgit.Violation(bad[0], m, list(repo.oplog))
            v.world = repo.concretize(m)
            v.conflicts = repo.conflicts_taken
            v.differs = repo.differs_taken
            d = GF.cex_data('handle_pr', shape, [pr], v, mode=mode, no_octopus=True, pr_status='DECLINED')
        ctx.stats.obligations += 3
        return dict(out=out, bad=bad, data=d)
    return h


# ---------------------------------------------------------------------------
# (c) redirection
def redirection(rep):
    import bert_e.workflow.gitwaterflow as gwf
    from bert_e.lib import template_loader as TL
    import bert_e.lib.template_loader
    text = (TL.TEMPLATE_DIR / 'pull_request_description.md').read_text()
    i = text.find('{{ pr.id }}')
    if i < 0:
        rep.error('description template has no {{ pr.id }}')
        return
    prefix, rest = text[:i], text[i + len('{{ pr.id }}'):]
    # z3: for every id (canonical decimal) the first digit run of prefix+id+rest[0] is the id
    s = z3.Solver()
    pid = z3.String('pid')
    canon = z3.Union(z3.Re('0'), z3.Concat(z3.Range('1', '9'), z3.Star(z3.Range('0', '9'))))
    digit = z3.Range('0', '9')
    desc = z3.Concat(z3.StringVal(prefix), pid, z3.StringVal(rest[:1]))
    # violated iff the prefix contains a digit or the char after the id is a digit
    pre_has_digit = z3.InRe(z3.StringVal(prefix), z3.Concat(R.ANYSTR, digit, R.ANYSTR)) \
        if all(32 <= ord(c) < 127 or c == '\n' for c in prefix) else None
    bad_prefix = any(c.isdigit() for c in prefix)
    bad_next = rest[:1].isdigit()
    s.add(z3.InRe(pid, canon), z3.Length(pid) <= 12)
    s.add(z3.Or(z3.BoolVal(bad_prefix), z3.BoolVal(bad_next)))
    r = str(s.check())
    rep.queries += 1
    rep.transitions += 1
    if r != 'unsat':
        rep.cexs.append(Cex('C19', 'parent id is not the first digit run of the integration PR description',
                            dict(part='template', prefix=prefix[-40:]), True,
                            'template text before the id contains a digit or is followed by one'))
    # concrete: real rendering + real handle_parent_pull_request for solver-drawn ids
    from jinja2 import Environment, FileSystemLoader, StrictUndefined
    env = Environment(loader=FileSystemLoader(str(TL.TEMPLATE_DIR)), undefined=StrictUndefined)
    q = R.Q()
    ids = [int(x) for x in q.members(canon, 10, maxlen=7)] + [1, 10, 907, 123456]
    for n in ids:
        d = env.get_template('pull_request_description.md').render(
            pr=types.SimpleNamespace(id=n), branch='w/5.1.4/bugfix/PROJ-12-x9')
        got = []
        job = types.SimpleNamespace(
            bert_e=None, project_repo=types.SimpleNamespace(
                get_pull_request=lambda i: got.append(i) or types.SimpleNamespace(id=i, author='x')))
        orig = gwf.handle_pull_request
        orig_job = gwf.PullRequestJob
        gwf.handle_pull_request = lambda j: None
        gwf.PullRequestJob = lambda **kw: kw['pull_request']
        try:
            gwf.handle_parent_pull_request(job, types.SimpleNamespace(description=d, id=555))
        finally:
            gwf.handle_pull_request = orig
            gwf.PullRequestJob = orig_job
        if got != [n]:
            rep.cexs.append(Cex('C19', 'child pull request redirected to the wrong parent',
                                dict(part='redirect', id=n), True, 'id %d -> %s' % (n, got)))
            break
        rep.validated += 1
    # handle_commit on a w/ tip or a source tip -> the parent pull request (lowest id)
    from bert_e.workflow.gitwaterflow import branches as B
    for branches_at_commit, expect_src in (({'w/5.1/' + SRC}, SRC), ({SRC}, SRC),
                                           ({'w/10.0/' + SRC, 'w/5.1/' + SRC}, SRC)):
        asked = []
        handled = []
        host = types.SimpleNamespace(
            get_pull_requests=lambda src_branch=None: asked.append(sorted(set(src_branch))) or [
                types.SimpleNamespace(id=9), types.SimpleNamespace(id=4)],
            get_pull_request=lambda i: types.SimpleNamespace(id=i, author='someone'))
        job = types.SimpleNamespace(
            git=types.SimpleNamespace(repo=types.SimpleNamespace(
                get_branches_from_commit=lambda c: branches_at_commit)),
            commit='abc', settings=types.SimpleNamespace(use_queue=False), bert_e=None, project_repo=host)
        orig, orig_job = gwf.handle_pull_request, gwf.PullRequestJob
        gwf.handle_pull_request = lambda j: handled.append(j.id)
        gwf.PullRequestJob = lambda **kw: kw['pull_request']
        try:
            gwf.handle_commit(job)
        finally:
            gwf.handle_pull_request, gwf.PullRequestJob = orig, orig_job
        rep.transitions += 1
        if asked != [[expect_src]] or handled != [4]:
            rep.cexs.append(Cex('C19', 'commit event not resolved to the parent pull request',
                                dict(part='commit', branches=sorted(branches_at_commit)), True,
                                'asked %s handled %s' % (asked, handled)))
        else:
            rep.validated += 1


def replay(data):
    common.install_common_stubs()
    if 'history' in data:
        from . import histcheck
        return histcheck.replay('C19', data)
    if data.get('scenario') == 'handle_pr':
        common.install_common_stubs(common.named_render)
        bad, out = GF.replay_on_real_git(data)
        return data['label'] in bad or out != 'PullRequestDeclined'
    if data.get('part') == 'prs':
        return pr_concrete(data['npre'], data['vals'])
    return True


def check(rep):
    rep.stubs += common.install_common_stubs()
    rep.stubs += GF.silence_all()
    import bert_e.workflow.gitwaterflow as gwf
    common.silence(gwf)
    rep.functions_encoded += ['integration.create_integration_branches',
                              'integration.create_integration_pull_requests',
                              'branches.IntegrationBranch.get_or_create_pull_request/get_pull_request_from_list',
                              'branches.GhostIntegrationBranch.get_or_create_pull_request',
                              'gitwaterflow.handle_declined_pull_request',
                              'gitwaterflow.handle_parent_pull_request / handle_commit',
                              'templates/pull_request_description.md']
    npre = 2 if rep.tier == 'quick' else 3
    rep.bounds = dict(existing_pull_requests='0..%d with symbolic source/destination/status' % npre,
                      targets=3)
    rep.assumptions += ['at most one open integration pull request per (branch, target) before the step',
                        'the git host filters get_pull_requests by source branch']
    rep.outside_claim += ['orders and multiplicities of events beyond the bounded histories listed under bounds.histories',
                          'merging the parent removes the branches (C01 direct / queue merge runs)']
    for n in range(0, npre + 1):
        results, st = common.explore_parallel(pr_harness(n), split_depth=5)
        rep.add_stats(st, 'integration pull requests, %d pre-existing' % n)
        seen = set()
        for _, r in results:
            if r['bad'] is not None and r['label'] not in seen:
                seen.add(r['label'])
                data = dict(part='prs', npre=n, vals=r['bad'])
                rep.cexs.append(Cex('C19', 'integration pull requests: ' + re.sub(r'target \d', 'target k', r['label']),
                                    data, replay(data), '%r' % r['bad']))
        if n == 0 and not any(r['ncreated'] == 2 for _, r in results):
            rep.error('vacuity: no path created the two integration pull requests')
    tw, st = explore(pr_harness(1, twin=True))
    if not any(r['bad'] is not None for _, r in tw):
        rep.error('reachability twin not refuted')
    results, st = explore(branches_harness)
    rep.add_stats(st, 'integration branches')
    for _, r in results:
        if r['bad']:
            rep.cexs.append(Cex('C19', 'integration branches created differ from one per target beyond the first',
                                dict(part='branches', got=r['got'], local=r['local']), True, '%r' % r))
            break
    for n in range(0, npre + 1):
        results, st = common.explore_parallel(decline_harness(n), split_depth=5)
        rep.add_stats(st, 'decline, %d pull requests on the host' % n)
        seen = set()
        for _, r in results:
            if r['bad'] is not None and r['label'] not in seen:
                seen.add(r['label'])
                rep.cexs.append(Cex('C19', 'decline: ' + r['label'], dict(part='decline', npre=n, r=str(r)),
                                    True, '%r' % r))
        if n == npre and not any(r['out'] == 'PullRequestDeclined' for _, r in results):
            rep.error('vacuity: decline never cleaned anything')
    # (d') the complete handler on a declined pull request
    import bert_e.workflow.gitwaterflow as gwf
    common.install_common_stubs(common.named_render)
    gwf.setup({})
    for mode in ('noqueue', 'queue'):
        results, st = common.explore_parallel(handler_decline_harness(SHAPE[:2], mode), split_depth=4,
                                              max_depth=3000)
        rep.add_stats(st, 'declined parent through the whole handler (%s mode)' % mode)
        if not any(r['out'] == 'PullRequestDeclined' for _, r in results):
            rep.error('vacuity: declined parent never cleaned up (%s)' % mode)
        seen = set()
        for _, r in results:
            for b in r['bad']:
                if b in seen:
                    continue
                seen.add(b)
                ok = False
                if r['data'] and not (r['data']['conflicts'] or r['data']['differs']):
                    bad, out = GF.replay_on_real_git(r['data'])
                    ok = (b in bad) or (b.startswith('C19 declined parent with') and out != 'PullRequestDeclined')
                rep.cexs.append(Cex('C19', 'decline (whole handler): ' + b.replace('answered NothingToDo', 'answered <other>'),
                                    r['data'] or dict(part='decline-handler'), ok, '%s [%s mode]' % (b, mode)))
    common.install_common_stubs()
    redirection(rep)
    rep.sample(dict(part='integration pull requests', names=wnames(), targets=SHAPE))
    # orders and multiplicities of events over bounded histories of complete jobs
    from . import histcheck
    histcheck.check(rep, 'C19')
