"""C18 - branch names: unambiguous classes, round trip (rx2z3, no length bound).

Everything is read from the live code: the `pattern` attribute of every class
tried by `branch_factory` (order read from its AST), `can_be_destination`, and
the name constructions in integration.py / queueing.py / __init__.py (format
strings read from the AST).  Queries are regex emptiness / inclusion over
printable ASCII, decided by z3's sequence theory; the translator is validated
against `re` on solver-generated members and non-members.
"""
import ast
import inspect
import re
import time
import z3

import rx2z3 as R
from symx.report import Cex
from . import common


def factory_order():
    from bert_e.workflow.gitwaterflow import branches as B
    src = inspect.getsource(B.branch_factory)
    tree = ast.parse(src)
    for node in ast.walk(tree):
        if isinstance(node, ast.For) and isinstance(node.iter, ast.List):
            return [getattr(B, e.id) for e in node.iter.elts]
    # the list may be bound to a name first: the first literal list / tuple of >= 5 class names
    for node in ast.walk(tree):
        if isinstance(node, (ast.List, ast.Tuple)) and len(node.elts) >= 5 and all(
                isinstance(e, ast.Name) and isinstance(getattr(B, e.id, None), type) for e in node.elts):
            return [getattr(B, e.id) for e in node.elts]
    # ... or be a module-level constant that branch_factory refers to by name
    used = {n.id for n in ast.walk(tree) if isinstance(n, ast.Name)}
    mod = ast.parse(inspect.getsource(B))
    for node in mod.body:
        if isinstance(node, ast.Assign) and isinstance(node.value, (ast.List, ast.Tuple)) and \
                any(isinstance(t, ast.Name) and t.id in used for t in node.targets):
            elts = node.value.elts
            if len(elts) >= 5 and all(isinstance(e, ast.Name) and isinstance(getattr(B, e.id, None), type)
                                      for e in elts):
                return [getattr(B, e.id) for e in elts]
    raise R.Unsupported('cannot read the class list of branch_factory')


def format_strings():
    """All str.format templates used to build robot branch names."""
    from bert_e.workflow.gitwaterflow import integration, queueing
    import bert_e.workflow.gitwaterflow as gwf
    found = {}
    for mod in (integration, queueing, gwf):
        tree = ast.parse(inspect.getsource(mod))
        for node in ast.walk(tree):
            if (isinstance(node, ast.Call) and isinstance(node.func, ast.Attribute)
                    and node.func.attr == 'format'
                    and isinstance(node.func.value, ast.Constant)
                    and isinstance(node.func.value.value, str)):
                s = node.func.value.value
                if s.startswith(('w/', 'q/')):
                    found.setdefault(s, []).append(mod.__name__)
    return found


# -- the documented grammar, written independently of the implementation ----
def spec():
    D = z3.Range('0', '9')
    N = z3.Plus(D)
    dot = z3.Re('.')
    C = lambda *a: z3.Concat(*a)                      # noqa
    lit = z3.Re
    any1 = z3.Plus(R.SIGMA)
    prefixes = ['improvement', 'bugfix', 'feature', 'project', 'documentation',
                'design', 'dependabot', 'epic', 'bug']
    feat = C(z3.Union(*[lit(p) for p in prefixes]), lit('/'), any1)
    ver = C(N, z3.Option(C(dot, N)), z3.Option(C(dot, N, z3.Option(C(dot, N)))))
    hotfix = C(lit('hotfix/'), N, dot, N, dot, N)
    S = {
        'DevelopmentBranch': C(lit('development/'), N, z3.Option(C(dot, N))),
        'StabilizationBranch': C(lit('stabilization/'), N, dot, N, dot, N),
        'HotfixBranch': hotfix,
        'ReleaseBranch': C(lit('release/'), N, dot, N),
        'FeatureBranch': feat,
        'IntegrationBranch': C(lit('w/'), ver, lit('/'), feat),
        'QueueBranch': C(lit('q/'), ver),
        'QueueIntegrationBranch': C(lit('q/w/'), N, lit('/'), ver, lit('/'), feat),
        'UserBranch': C(lit('user/'), any1),
        'LegacyHotfixBranch': z3.Intersect(C(lit('hotfix/'), any1),
                                           z3.Complement(hotfix)),
    }
    # versions the cascade can hand to the name constructors
    vergen = z3.Union(C(N, z3.Option(C(dot, N))), C(N, dot, N, dot, N),
                      C(N, dot, N, dot, N, dot, N))
    prid = z3.Union(lit('0'), C(z3.Range('1', '9'), z3.Star(D)))
    return S, feat, ver, vergen, prid, N


DEST = {'DevelopmentBranch', 'StabilizationBranch', 'HotfixBranch'}


def classify(name):
    from bert_e.workflow.gitwaterflow import branches as B
    from bert_e import exceptions as ex
    try:
        return type(B.branch_factory(None, name)).__name__
    except ex.UnrecognizedBranchPattern:
        return None


def roundtrip_concrete(pr, ver, src):
    """Run the real name construction + parse back; True iff identity."""
    from bert_e.workflow.gitwaterflow import branches as B
    qname = 'q/w/{}/{}/{}'.format(pr, ver, src)
    wname = 'w/{}/{}'.format(ver, src)
    q = B.branch_factory(None, qname)
    w = B.branch_factory(None, wname)
    ok = (type(q).__name__ == 'QueueIntegrationBranch' and q.pr_id == int(pr)
          and q.version == ver and q.feature_branch == src
          and type(w).__name__ == 'IntegrationBranch' and w.version == ver
          and w.feature_branch == src)
    # numeric sub-groups are the dot separated digit runs, in order
    comps = [int(x) for x in ver.split('.')]
    got = [q.major, q.minor, q.micro, q.hfrev]
    exp = comps + [None] * (4 - len(comps))
    ok = ok and got == exp and [w.major, w.minor, w.micro, w.hfrev] == exp
    return ok


def classify_after(first, name):
    """Classification of `name` right after `first` was classified (same process)."""
    classify(first)
    return classify(name)


def replay(data):
    if 'history' in data:
        from . import histcheck
        return histcheck.replay('C18', data)
    kind = data['kind']
    if kind == 'stateful':
        alone = classify(data['name'])
        return classify_after(data['first'], data['name']) != alone or alone != data['expected']
    if kind == 'classification':
        return classify(data['name']) != data['expected']
    if kind == 'roundtrip':
        try:
            return not roundtrip_concrete(data['pr'], data['ver'], data['src'])
        except Exception:
            return True
    if kind == 'destination':
        from bert_e.workflow.gitwaterflow import branches as B
        return getattr(B, data['cls']).can_be_destination != data['expected']
    return False


def stateless_part(rep, q, Limpl, names):
    """Classification is a function of the name alone: every solver-drawn member of every
    class is classified the same whatever name was looked up just before (a cache or a
    reordering inside branch_factory must not change the answer)."""
    k = 2 if rep.tier == 'quick' else 6
    members = {n: q.members(Limpl[n], k, maxlen=28) for n in names}
    rejected = ['master', 'w/x', 'release', 'q/w/1/x/y']
    for n in names:
        for m in members[n]:
            for prev_kind in names + [None]:
                prevs = members[prev_kind][:1] if prev_kind else rejected[:1]
                for first in prevs:
                    rep.transitions += 1
                    got = classify_after(first, m)
                    if got != n:
                        rep.cexs.append(Cex('C18', 'classification depends on the name looked up before',
                                            dict(kind='stateful', first=first, name=m, expected=n), True,
                                            'after %r, %r is classified %s instead of %s' % (first, m, got, n)))
                        return
                    rep.validated += 1


def check(rep):
    from bert_e.workflow.gitwaterflow import branches as B
    t0 = time.time()
    q = R.Q()
    order = factory_order()
    names = [c.__name__ for c in order]
    rep.functions_encoded += ['%s.pattern' % n for n in names] + [
        'branch_factory (class order read from its AST)',
        'name templates of integration.py / queueing.py / __init__.py']
    rep.bounds = dict(alphabet='printable ASCII (32..126)', length='unbounded',
                      sample_names_per_class=10 if rep.tier == 'quick' else 120)
    rep.outside_claim += ['non-ASCII names (\\d and \\w also match Unicode '
                          'digits/letters)', 'names containing a newline '
                          '(`$` matches before a trailing newline); git '
                          'refuses both in ref names',
                          'which of several possible sub-group bindings '
                          "Python's backtracking picks (tested on solver-"
                          'generated samples, not decided)']
    S, feat_s, ver_s, vergen, prid, N = spec()
    if set(S) != set(names):
        rep.cexs.append(Cex('C18', 'factory class set differs from the grammar',
                            dict(kind='classes', impl=names), True,
                            'classes tried by branch_factory: %s' % names))
        return
    L = {}
    for c in order:
        if not R.anchored(c.pattern) or not c.pattern.startswith('^'):
            raise R.Unsupported('%s.pattern is not anchored' % c.__name__)
        L[c.__name__] = R.lang(c.pattern)
    # implementation classification: first class in factory order that matches
    Limpl = {}
    earlier = R.EMPTY
    for n in names:
        Limpl[n] = z3.Intersect(L[n], z3.Complement(earlier))
        earlier = z3.Union(earlier, L[n])
    nq = 0
    stateless_part(rep, q, Limpl, names)
    # 1. classification == grammar, per kind (two inclusions each)
    for n in names:
        ok, w = q.equal(Limpl[n], S[n], label='classify ' + n)
        rep.transitions += 2
        if not ok:
            data = dict(kind='classification', name=w,
                        expected=n if classify(w) != n else None)
            # which side disagrees: evaluate the grammar on the witness
            sm = z3.Solver()
            sm.add(z3.InRe(z3.StringVal(w), S[n]))
            in_spec = str(sm.check()) == 'sat'
            data['expected'] = n if in_spec else '(not %s)' % n
            got = classify(w)
            repro = (got == n) != in_spec
            rep.cexs.append(Cex('C18', 'classification of %s differs from the grammar' % n,
                                data, repro,
                                'name %r: grammar says %s%s, branch_factory says %s'
                                % (w, '' if in_spec else 'not ', n, got)))
    # pairwise disjointness of the grammar classes (sanity of the oracle)
    for i, a in enumerate(names):
        for b in names[i + 1:]:
            ok, w = q.empty(z3.Intersect(S[a], S[b]), label='spec disjoint %s/%s' % (a, b))
            if not ok:
                rep.error('grammar classes %s and %s overlap on %r' % (a, b, w))
    # can_be_destination exactly on dev / stab / hotfix
    for c in order:
        exp = c.__name__ in DEST
        rep.transitions += 1
        if bool(c.can_be_destination) != exp:
            rep.cexs.append(Cex('C18', 'can_be_destination wrong on ' + c.__name__,
                                dict(kind='destination', cls=c.__name__, expected=exp),
                                True, '%s.can_be_destination = %r' % (c.__name__, c.can_be_destination)))
    # 2. generated names land in the right class
    fmts = format_strings()
    expected_fmts = {'w/{}/{}', 'q/w/{}/{}/{}', 'q/{}', 'w/{}'}
    if not expected_fmts <= set(fmts):
        rep.error('name templates found in the code: %s (expected %s)'
                  % (sorted(fmts), sorted(expected_fmts)))
    unknown_fmts = set(fmts) - expected_fmts
    if unknown_fmts:
        rep.error('unmodelled robot name template(s): %s' % sorted(unknown_fmts))
    featI = Limpl['FeatureBranch']
    lit = z3.Re
    gen = {
        'IntegrationBranch': z3.Concat(lit('w/'), vergen, lit('/'), featI),
        'QueueIntegrationBranch': z3.Concat(lit('q/w/'), prid, lit('/'), vergen,
                                            lit('/'), featI),
        'QueueBranch': z3.Concat(lit('q/'), vergen),
    }
    for n, g in gen.items():
        ok, w = q.subset(g, Limpl[n], label='generated ' + n)
        rep.transitions += 1
        if not ok:
            rep.cexs.append(Cex('C18', 'generated %s name not classified as such' % n,
                                dict(kind='classification', name=w, expected=n),
                                classify(w) != n,
                                'generated name %r is classified %s' % (w, classify(w))))
    # the conflict-probe branch `w/<destination name>` (check_conflict) can
    # never collide with a recognised branch name
    probe = z3.Concat(lit('w/'), z3.Union(*[Limpl[d] for d in sorted(DEST)]))
    ok, w = q.empty(z3.Intersect(probe, z3.Union(*[L[n] for n in names])),
                    label='conflict-probe name is unclassified')
    rep.transitions += 1
    if not ok:
        rep.cexs.append(Cex('C18', 'conflict-probe branch name collides with a GWF class',
                            dict(kind='classification', name=w, expected=None),
                            classify(w) is not None, 'name %r' % w))
    # 3. parse-back is the identity: structure + slash-freeness of the id and
    #    version groups make the decomposition unique.
    slash = z3.Concat(R.ANYSTR, lit('/'), R.ANYSTR)
    dotany = z3.Concat(R.ANYSTR, lit('.'), R.ANYSTR)
    for cls, head, groups in (
            (B.QueueIntegrationBranch, 'q/w/', ['pr_id', 'version', 'feature_branch']),
            (B.IntegrationBranch, 'w/', ['version', 'feature_branch'])):
        gl = [R.group_lang(cls.pattern, g) for g in groups]
        parts = [lit(head)]
        for k, g in enumerate(gl):
            parts.append(g)
            if k < len(gl) - 1:
                parts.append(lit('/'))
        ok, w = q.equal(L[cls.__name__], z3.Concat(*parts),
                        label='structure of %s' % cls.__name__)
        rep.transitions += 2
        if not ok:
            rep.cexs.append(Cex('C18', '%s pattern is not head/groups joined by "/"' % cls.__name__,
                                dict(kind='structure', name=w), True,
                                'witness %r' % w))
        for g, gname in zip(gl[:-1], groups[:-1]):
            ok, w = q.empty(z3.Intersect(g, slash), label='%s.%s has no "/"' % (cls.__name__, gname))
            rep.transitions += 1
            if not ok:
                rep.cexs.append(Cex('C18', 'group %s of %s may contain "/" (ambiguous split)' % (gname, cls.__name__),
                                    dict(kind='structure', name=w), True, 'witness %r' % w))
        # the feature group must accept every valid source name
        ok, w = q.subset(featI, gl[-1], label='%s.feature_branch ⊇ feature names' % cls.__name__)
        rep.transitions += 1
        if not ok:
            rep.cexs.append(Cex('C18', 'feature name not accepted inside ' + cls.__name__,
                                dict(kind='roundtrip', pr='1', ver='5.1', src=w),
                                not _safe_rt('1', '5.1', w), 'source %r' % w))
        # 4. numeric sub-groups are dot-free digit runs and version = spec
        vl = R.group_lang(cls.pattern, 'version')
        ok, w = q.equal(vl, ver_s, label='%s.version language' % cls.__name__)
        rep.transitions += 2
        if not ok:
            rep.cexs.append(Cex('C18', 'version group of %s differs from n(.n)?(.n(.n)?)?' % cls.__name__,
                                dict(kind='roundtrip', pr='1', ver=w, src='feature/x'),
                                not _safe_rt('1', w, 'feature/x'), 'version %r' % w))
        for sub in ('major', 'minor', 'micro', 'hfrev'):
            sl = R.group_lang(cls.pattern, sub)
            ok, w = q.equal(sl, N, label='%s.%s = digits' % (cls.__name__, sub))
            rep.transitions += 2
            if not ok:
                rep.error('sub-group %s of %s is not \\d+ (witness %r)' % (sub, cls.__name__, w))
    # destination patterns: version group languages
    for cls, vs in ((B.DevelopmentBranch, z3.Concat(N, z3.Option(z3.Concat(lit('.'), N)))),
                    (B.StabilizationBranch, z3.Concat(N, lit('.'), N, lit('.'), N)),
                    (B.HotfixBranch, z3.Concat(N, lit('.'), N, lit('.'), N))):
        vl = R.group_lang(cls.pattern, 'version')
        ok, w = q.equal(vl, vs, label='%s.version' % cls.__name__)
        rep.transitions += 2
        if not ok:
            rep.error('version group of %s unexpected (witness %r)' % (cls.__name__, w))
    rep.states = q.n
    rep.queries = q.n
    rep.solver_s = q.t
    rep.obligations = sum(1 for (_, r, _) in q.log if r == 'unsat')
    rep.add_part('regex queries', queries=q.n, solver_s=round(q.t, 2),
                 unsat=rep.obligations)
    # -- validation of the translator and concrete round trips ----------------
    k = rep.bounds['sample_names_per_class']
    tested = 0
    for n in names:
        cls = getattr(B, n)
        for s in q.members(L[n], k):
            m = re.match(cls.pattern, s)
            if not (m and m.end() == len(s)):
                rep.error('translator: %r in L(%s) but re does not match' % (s, n))
            tested += 1
        near = z3.Intersect(z3.Complement(L[n]),
                            z3.Concat(lit(S_prefix(n)), R.ANYSTR))
        for s in q.members(near, k // 2):
            m = re.match(cls.pattern, s)
            if m and m.end() == len(s):
                rep.error('translator: %r not in L(%s) but re matches' % (s, n))
            tested += 1
        for s in q.members(Limpl[n], k // 2):
            if classify(s) != n:
                rep.error('factory classifies %r as %s, encoding says %s' % (s, classify(s), n))
            tested += 1
    rejected = z3.Complement(z3.Union(*[L[n] for n in names]))
    for s in q.members(z3.Intersect(rejected, z3.Plus(R.SIGMA)), k):
        if classify(s) is not None:
            rep.error('factory accepts %r, encoding says rejected' % s)
        tested += 1
    rt = 0
    srcs = q.members(featI, max(k, 20), maxlen=30)
    srcs += ['bugfix/PROJ-1/5.1/q/w/3/4.3/feature/x', 'feature/5.1.4', 'bug/q/5',
             'epic/w/10/bugfix/a', 'improvement/1.2.3.4', 'bugfix/RING-123-a.b/c',
             'feature/../..', 'dependabot/npm_and_yarn/ui/x-1.2.3', 'bugfix/0']
    vers = q.members(vergen, 12, maxlen=12) + ['10', '4.3', '5.1.4', '5.1.4.2', '0.0', '007.1']
    prs = q.members(prid, 6, maxlen=6) + ['1', '10', '999999']
    import itertools
    rnd = __import__('random').Random(rep.seed)
    triples = list(itertools.product(prs, vers, srcs))
    rnd.shuffle(triples)
    for pr, ver, src in triples[: (500 if rep.tier == 'quick' else 5000)]:
        if not _safe_rt(pr, ver, src):
            rep.cexs.append(Cex('C18', 'round trip of a generated name is not the identity',
                                dict(kind='roundtrip', pr=pr, ver=ver, src=src), True,
                                '(pr=%r, ver=%r, src=%r)' % (pr, ver, src)))
            break
        rt += 1
    rep.validated = tested + rt
    rep.add_part('differential vs re / branch_factory', names=tested, round_trips=rt)
    rep.sample(dict(query='classify FeatureBranch: L_impl == grammar', result='unsat both inclusions'))
    rep.sample(dict(round_trip=triples[0] if triples else None))
    rep.sample(dict(query_log=q.log[:6]))
    # the names in use: a queue name derived for one pull request is read back as that pull request's
    from . import histcheck
    histcheck.check(rep, 'C18')


def S_prefix(n):
    return {'DevelopmentBranch': 'development/', 'StabilizationBranch': 'stabilization/',
            'HotfixBranch': 'hotfix/', 'ReleaseBranch': 'release/', 'FeatureBranch': 'bug',
            'IntegrationBranch': 'w/', 'QueueBranch': 'q/', 'QueueIntegrationBranch': 'q/w/',
            'UserBranch': 'user', 'LegacyHotfixBranch': 'hotfix'}[n]


def _safe_rt(pr, ver, src):
    try:
        return roundtrip_concrete(pr, ver, src)
    except Exception:
        return False
