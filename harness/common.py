"""Shared harness helpers: stubs, process pool, witness replay utilities."""
import multiprocessing as mp
import os
import random
import time
import traceback

from symx.core import Stats, HarnessError, explore, split_roots

NPROC = int(os.environ.get('VERIF_NPROC', '16'))


def host_str(s):
    """A new `str` object equal to s.  The git hosts build user names with
    `.lower()` on every access, so two equal names coming from the host are never
    the same object; stubs that hand out one shared literal would hide identity
    (`is`) comparisons."""
    return (s + '.')[:-1] if isinstance(s, str) else s


class HostNames:
    """Mixin for stub pull requests / comments: `author` is a fresh object on every access."""
    _author = None

    @property
    def author(self):
        return host_str(self._author)

    @author.setter
    def author(self, v):
        self._author = v


def named_render(template, **kw):
    """Deterministic message text: template name + message code."""
    return '[%s code=%s]' % (template, kw.get('code', ''))


def install_common_stubs(render=None):
    """The stubs every harness uses (listed in evidence as `stubs`)."""
    import bert_e.exceptions as ex
    import bert_e.lib.template_loader as tl
    import bert_e.lib.retry as retry
    render = render or (lambda *a, **k: '')
    ex.render = render
    tl.render = render
    try:
        import bert_e.workflow.gitwaterflow.branches as B
        B.render = render
    except Exception:
        pass
    retry.sleep = lambda *a, **k: None
    return ['bert_e.exceptions.render -> ""',
            'bert_e.lib.template_loader.render -> ""',
            'bert_e.lib.retry.sleep -> no-op',
            'module loggers of the code under test -> no-op']


def silence(*mods):
    for m in mods:
        log = getattr(m, 'LOG', None)
        if log is not None:
            for n in ('debug', 'info', 'warning', 'error', 'exception'):
                setattr(log, n, lambda *a, **k: None)


_FN = {}


def _worker(args):
    key, item = args
    fn = _FN[key]
    try:
        return ('ok', fn(item))
    except HarnessError as e:
        return ('harness', '%s (item %r)' % (e, item))
    except BaseException as e:                     # noqa
        return ('exc', '%r (item %r)\n%s' % (e, item, traceback.format_exc()))


def pmap(fn, items, nproc=None):
    """Map fn over items in a fork pool; HarnessError in any worker re-raises."""
    items = list(items)
    nproc = min(nproc or NPROC, max(1, len(items)))
    key = len(_FN)
    _FN[key] = fn            # inherited by the forked workers
    try:
        if nproc == 1:
            outs = [_worker((key, it)) for it in items]
        else:
            ctx = mp.get_context('fork')
            with ctx.Pool(nproc) as pool:
                outs = pool.map(_worker, [(key, it) for it in items],
                                chunksize=1)
    finally:
        _FN.pop(key, None)
    res = []
    for kind, val in outs:
        if kind == 'ok':
            res.append(val)
        elif kind == 'harness':
            raise HarnessError(val)
        else:
            raise HarnessError('worker exception: ' + val)
    return res


def explore_parallel(fn, split_depth=6, nproc=None, max_paths=400000,
                     max_depth=400):
    """Explore fn with the path tree split over a process pool.

    fn(ctx) must return a picklable result.  Returns (results, Stats).
    """
    roots = split_roots(fn, split_depth, max_depth=max_depth)

    def run(root):
        results, st = explore(fn, max_paths=max_paths, max_depth=max_depth,
                              roots=[root])
        return results, st.as_dict()
    outs = pmap(run, roots, nproc)
    total = Stats()
    allres = []
    for results, d in outs:
        allres.extend(results)
        s = Stats()
        s.__dict__.update(d)
        total.add(s)
    return allres, total


def sample_indices(n, k, seed):
    rnd = random.Random(seed)
    if n <= k:
        return list(range(n))
    return sorted(rnd.sample(range(n), k))


def explore_configs(configs, make_harness, split_depth=4, nproc=None,
                    max_paths=400000, max_depth=600, slice_s=6.0):
    """Explore make_harness(cfg) for every cfg on a process pool.

    The path tree of each configuration is first split into root prefixes; every
    task explores one prefix for at most `slice_s` seconds and hands the prefixes
    it has not reached back to the pool (dynamic balancing: one deep subtree does
    not keep a single worker busy while the others idle).

    Returns {cfg_index: (results, Stats)}.
    """
    configs = list(configs)
    nproc = nproc or NPROC

    def roots_of(i):
        return i, split_roots(make_harness(configs[i]), split_depth,
                              max_depth=max_depth)

    def run(task):
        i, roots = task
        results, st, left = explore(make_harness(configs[i]), max_paths=max_paths,
                                    max_depth=max_depth, roots=roots,
                                    yield_at=time.time() + slice_s)
        return i, results, st.as_dict(), left
    acc = {i: ([], Stats()) for i in range(len(configs))}
    failed = {}          # config index -> first harness error (that configuration is inconclusive)
    key = len(_FN)
    _FN[key] = run
    _FN[key + 1] = roots_of
    errors = []
    try:
        ctx = mp.get_context('fork')
        with ctx.Pool(nproc) as pool:
            inflight = [(i, pool.apply_async(_worker, ((key + 1, i),))) for i in range(len(configs))]
            tasks = []
            for ci, h in inflight:
                kind, val = h.get()
                if kind != 'ok':
                    failed.setdefault(ci, val if kind == 'harness' else 'worker exception: ' + val)
                    continue
                i, roots = val
                tasks += [(i, [r]) for r in roots]
            pending = [(t[0], pool.apply_async(_worker, ((key, t),))) for t in tasks] if not errors else []
            total = 0
            while pending:
                ci, h = pending.pop(0)
                if not h.ready():
                    pending.append((ci, h))
                    h.wait(0.05)
                    continue
                kind, val = h.get()
                if kind != 'ok':
                    # this configuration is inconclusive; the others are still explored (a
                    # violation found elsewhere must not be hidden by an unsupported command here)
                    failed.setdefault(ci, val if kind == 'harness' else 'worker exception: ' + val)
                    continue
                i, results, d, left = val
                if i in failed:
                    continue
                acc[i][0].extend(results)
                s = Stats()
                s.__dict__.update(d)
                acc[i][1].add(s)
                total += d.get('paths', 0) + d.get('aborted', 0)
                if total > max_paths * max(1, len(configs)):
                    errors.append(('harness', 'path budget exhausted'))
                    break
                if left and not errors:
                    # hand the unexplored prefixes back, a few per task
                    k = max(1, len(left) // 4)
                    for j in range(0, len(left), k):
                        pending.append((i, pool.apply_async(_worker, ((key, (i, left[j:j + k])),))))
            if errors:
                pool.terminate()
    finally:
        _FN.pop(key, None)
        _FN.pop(key + 1, None)
    if errors:
        kind, val = errors[0]
        raise HarnessError(val if kind == 'harness' else 'worker exception: ' + val)
    for i, msg in failed.items():
        acc[i] = ([], Stats())
        CONFIG_ERRORS.append((i, msg))
    return acc


CONFIG_ERRORS = []      # (config index, message) of the last explore_configs call


def pop_config_errors():
    out = list(CONFIG_ERRORS)
    del CONFIG_ERRORS[:]
    return out
