"""Shared harness helpers: stubs, process pool, witness replay utilities."""
import multiprocessing as mp
import os
import random
import time
import traceback

from symx.core import Stats, HarnessError, explore, split_roots

NPROC = int(os.environ.get('VERIF_NPROC', '16'))


def named_render(template, **kw):
    """Deterministic message text: template name + message code."""
    return '[%s code=%s]' % (template, kw.get('code', ''))


def install_common_stubs(render=None):
    """The stubs every harness uses (listed in evidence as `stubs`)."""
    import bert_e.exceptions as ex
    import bert_e.lib.template_loader as tl
    import bert_e.lib.retry as retry
    render = render or (lambda *a, **k: '')
    ex.render = render
    tl.render = render
    try:
        import bert_e.workflow.gitwaterflow.branches as B
        B.render = render
    except Exception:
        pass
    retry.sleep = lambda *a, **k: None
    return ['bert_e.exceptions.render -> ""',
            'bert_e.lib.template_loader.render -> ""',
            'bert_e.lib.retry.sleep -> no-op',
            'module loggers of the code under test -> no-op']


def silence(*mods):
    for m in mods:
        log = getattr(m, 'LOG', None)
        if log is not None:
            for n in ('debug', 'info', 'warning', 'error', 'exception'):
                setattr(log, n, lambda *a, **k: None)


_FN = {}


def _worker(args):
    key, item = args
    fn = _FN[key]
    try:
        return ('ok', fn(item))
    except HarnessError as e:
        return ('harness', '%s (item %r)' % (e, item))
    except BaseException as e:                     # noqa
        return ('exc', '%r (item %r)\n%s' % (e, item, traceback.format_exc()))


def pmap(fn, items, nproc=None):
    """Map fn over items in a fork pool; HarnessError in any worker re-raises."""
    items = list(items)
    nproc = min(nproc or NPROC, max(1, len(items)))
    key = len(_FN)
    _FN[key] = fn            # inherited by the forked workers
    try:
        if nproc == 1:
            outs = [_worker((key, it)) for it in items]
        else:
            ctx = mp.get_context('fork')
            with ctx.Pool(nproc) as pool:
                outs = pool.map(_worker, [(key, it) for it in items],
                                chunksize=1)
    finally:
        _FN.pop(key, None)
    res = []
    for kind, val in outs:
        if kind == 'ok':
            res.append(val)
        elif kind == 'harness':
            raise HarnessError(val)
        else:
            raise HarnessError('worker exception: ' + val)
    return res


def explore_parallel(fn, split_depth=6, nproc=None, max_paths=400000,
                     max_depth=400):
    """Explore fn with the path tree split over a process pool.

    fn(ctx) must return a picklable result.  Returns (results, Stats).
    """
    roots = split_roots(fn, split_depth, max_depth=max_depth)

    def run(root):
        results, st = explore(fn, max_paths=max_paths, max_depth=max_depth,
                              roots=[root])
        return results, st.as_dict()
    outs = pmap(run, roots, nproc)
    total = Stats()
    allres = []
    for results, d in outs:
        allres.extend(results)
        s = Stats()
        s.__dict__.update(d)
        total.add(s)
    return allres, total


def sample_indices(n, k, seed):
    rnd = random.Random(seed)
    if n <= k:
        return list(range(n))
    return sorted(rnd.sample(range(n), k))


def explore_configs(configs, make_harness, split_depth=4, nproc=None,
                    max_paths=400000, max_depth=600):
    """Explore make_harness(cfg) for every cfg, splitting each path tree into
    root prefixes and spreading (cfg, root) pairs over the pool.

    Returns {cfg_index: (results, Stats)}.
    """
    configs = list(configs)

    def roots_of(i):
        return i, split_roots(make_harness(configs[i]), split_depth,
                              max_depth=max_depth)
    root_lists = pmap(roots_of, range(len(configs)), nproc)
    tasks = [(i, r) for i, roots in root_lists for r in roots]

    def run(task):
        i, root = task
        results, st = explore(make_harness(configs[i]), max_paths=max_paths,
                              max_depth=max_depth, roots=[root])
        return i, results, st.as_dict()
    outs = pmap(run, tasks, nproc)
    acc = {i: ([], Stats()) for i in range(len(configs))}
    for i, results, d in outs:
        acc[i][0].extend(results)
        s = Stats()
        s.__dict__.update(d)
        acc[i][1].add(s)
    return acc
