"""C07 - only the right people can switch options on through comments (partial).

Real code: gitwaterflow.handle_comments, Reactor.init_settings / handle_options /
handle_commands / dispatch, the live registry built by commands.setup().

The solver quantifies over WHO wrote WHAT: every comment's author role and its
text are symbolic choices over the roles {author, admin, other, robot} (with
the author optionally being an admin) and over a text set generated from the
live registry (every registered option and command, an unknown word, each
syntax, `=arg`, separator pairs, unaddressed text, surrounding whitespace).
The text grammar itself as a symbolic string is NOT decided (re.sub / split
pipelines are out of reach of z3 / CrossHair here); one regex lemma on the
slash syntax is checked with rx2z3.
"""
import itertools
import types
import z3

from symx.core import explore, model_value, HarnessError, Ctx
from symx.report import Cex
import rx2z3 as R
from . import common

ROLES = ['contributor', 'admin', 'other', 'robot']
# robot account names (a GitHub App login carries brackets; '+' and '.' are legal too)
ROBOTS = ['robot', 'bert-e[bot]', 'ci+robot']
SEPS = [' ', ',', '.', '-', ':', ';', '|', '+', ', ']


def registry():
    from bert_e.reactor import Reactor
    opts = Reactor.get_options()
    cmds = Reactor.get_commands()
    return opts, cmds


def render(syntax, kws, sep=' ', pad=''):
    """kws: list of 'kw' or 'kw=arg'."""
    if syntax == 'at':
        return pad + '@robot ' + sep.join(kws) + pad
    if syntax == 'colon':
        return pad + '@robot: ' + sep.join(kws) + pad
    if syntax == 'slash':
        return pad + sep.join('/' + k for k in kws) + pad
    if syntax == 'plain':
        return pad + ' '.join(kws) + pad
    raise ValueError(syntax)


def text_set(tier):
    """Structured comment texts: (text, addressed, [keywords])."""
    opts, cmds = registry()
    T = []
    priv = sorted(k for k, o in opts.items() if o.privileged)
    auth = sorted(k for k, o in opts.items() if o.authored)
    plain = sorted(k for k, o in opts.items() if not o.privileged and not o.authored)
    commands = sorted(cmds)
    singles = priv + auth + plain + commands + ['frobnicate']
    for syntax in ('at', 'colon', 'slash'):
        for kw in singles:
            T.append((render(syntax, [kw]), True, [kw]))
    T.append((render('at', ['after_pull_request=5']), True, ['after_pull_request=5']))
    T.append((render('slash', ['after_pull_request=17']), True, ['after_pull_request=17']))
    T.append((render('at', ['wait=maybe']), True, ['wait=maybe']))
    T.append((render('at', ['after_pull_request']), True, ['after_pull_request']))
    for sep in SEPS:
        T.append((render('at', [priv[0], plain[0]], sep), True, [priv[0], plain[0]]))
        T.append((render('at', [plain[0], 'frobnicate'], sep), True, [plain[0], 'frobnicate']))
    for syntax in ('at', 'colon', 'slash'):
        T.append((render(syntax, [plain[1], priv[1]]), True, [plain[1], priv[1]]))
        T.append((render(syntax, [auth[0], plain[0]]), True, [auth[0], plain[0]]))
        T.append((render(syntax, [plain[0], commands[0]]), True, [plain[0], commands[0]]))
        T.append((render(syntax, [commands[0], priv[0]]), True, [commands[0], priv[0]]))
        T.append((render(syntax, [priv[0]], pad='  \n'), True, [priv[0]]))
    for kw in (priv[0], auth[0], plain[0], 'frobnicate'):
        T.append((render('plain', [kw]), False, [kw]))
        T.append(('please ' + render('at', [kw]), False, [kw]))
        T.append(('@robotic ' + kw if False else 'see @robot ' + kw, False, [kw]))
    T.append(('LGTM, thanks', False, []))
    T.append(('', False, []))
    return T, dict(priv=priv, auth=auth, plain=plain, commands=commands)


def short_set(T, groups):
    """Representative subset used for multi-comment lists."""
    want = [('at', groups['priv'][0]), ('slash', groups['priv'][1]), ('at', groups['auth'][0]),
            ('colon', groups['plain'][0]), ('at', groups['commands'][0]), ('at', 'frobnicate')]
    out = []
    for syn, kw in want:
        out.append((render(syn, [kw]), True, [kw]))
    out.append((render('at', [groups['plain'][1], groups['priv'][2]]), True,
                [groups['plain'][1], groups['priv'][2]]))
    out.append((render('at', ['after_pull_request=5']), True, ['after_pull_request=5']))
    out.append(('see @robot ' + groups['priv'][0], False, []))
    return out


def expected(comments, author_is_admin, defaults, opts, cmds):
    """The statement, on structured comments [(role, addressed, kws)].
    Returns ('raise', class, keyword) or ('ok', {option: value})."""
    settings = {}
    for k, o in opts.items():
        settings[k] = set(o.default) if isinstance(o.default, set) else o.default
    for role, addressed, kws in comments:
        if not addressed or not kws:
            continue
        privileged = (role == 'admin' or (role == 'contributor' and author_is_admin)) and role != 'contributor'
        authored = role == 'contributor'
        for idx, kw in enumerate(kws):
            key, *args = kw.split('=')
            if key in cmds:
                if idx == 0:
                    break               # a command call, not an option declaration
                return ('raise', 'UnknownCommand', key)
            if key not in opts:
                return ('raise', 'UnknownCommand', key)
            o = opts[key]
            if o.privileged and not privileged:
                return ('raise', 'NotEnoughCredentials', key)
            if o.authored and not authored:
                return ('raise', 'NotAuthor', key)
            if key == 'after_pull_request':
                if not args:
                    return ('raise', 'IncorrectCommandSyntax', key)
                if args[0].isdigit():
                    settings[key].add(args[0])
            else:
                settings[key] = args[0] if args else True
    # commands phase: newest first, up to the robot's last message
    for role, addressed, kws in reversed(comments):
        if role == 'robot':
            break
        if not addressed or not kws:
            continue
        key = kws[0].split('=')[0]
        if key in cmds:
            return ('command', key, None)
        if key not in opts:
            return ('raise', 'UnknownCommand', key)
    return ('ok', settings)


def run_real(comments_text, author_is_admin, robot='robot'):
    """comments_text: [(role, text)] -> same shape as expected()."""
    comments_text = [(robot if r == 'robot' else r, t.replace('@robot', '@' + robot)) for r, t in comments_text]
    import bert_e.workflow.gitwaterflow as gwf
    from bert_e import exceptions as ex
    from bert_e.lib.settings_dict import SettingsDict
    admins = ['admin'] + (['contributor'] if author_is_admin else [])
    class _C(common.HostNames):
        def __init__(self, author, text=None, comments=None):
            self.author, self.text, self.comments = author, text, comments
    job = types.SimpleNamespace(
        settings=SettingsDict({}, dict(admins=admins, robot=robot)),
        pull_request=_C('contributor', comments=[_C(r, t) for r, t in comments_text]),
        bert_e=types.SimpleNamespace(client=types.SimpleNamespace(login=robot)))
    job.active_options = []
    try:
        gwf.handle_comments(job)
    except (ex.UnknownCommand, ex.NotEnoughCredentials, ex.NotAuthor, ex.IncorrectCommandSyntax) as e:
        return ('raise', type(e).__name__, e.kwargs.get('command'))
    except (ex.HelpMessage, ex.StatusReport, ex.CommandNotImplemented, ex.ResetComplete,
            ex.LossyResetWarning) as e:
        return ('command', type(e).__name__, None)
    except Exception as e:                      # reset & co need a repository
        return ('command', type(e).__name__, None)
    return ('ok', dict(job.settings.maps[0]))


def same(exp, got):
    if exp[0] != got[0]:
        return False
    if exp[0] == 'raise':
        return exp[1] == got[1] and (exp[1] == 'IncorrectCommandSyntax' or exp[2] == got[2])
    if exp[0] == 'command':
        return True
    return exp[1] == got[1]


def make_harness(texts, ncomments, author_is_admin, defaults):
    def h(ctx):
        opts, cmds = registry()
        comments, plain = [], []
        for i in range(ncomments):
            role = ROLES[ctx.choose('role%d' % i, len(ROLES))]
            k = ctx.choose('text%d' % i, len(texts))
            text, addressed, kws = texts[k]
            comments.append((role, addressed, kws))
            plain.append((role, text))
        robot = ROBOTS[ctx.choose('robot_name', len(ROBOTS))] if ncomments == 1 else ROBOTS[0]
        exp = expected(comments, author_is_admin, defaults, opts, cmds)
        got = run_real(plain, author_is_admin, robot)
        ctx.stats.obligations += 1
        ok = same(exp, got)
        if not ok and exp[0] == 'command' and robot != ROBOTS[0] and got[0] == 'ok' and \
                same(expected([], author_is_admin, defaults, opts, cmds), got):
            # Bert-E interpolates the robot name unescaped into the regular expression that
            # recognises *commands*: with a name such as bert-e[bot] an @-addressed command is
            # ignored (no option changes).  A defect, but not one of C07: the statement is about
            # options being switched on; commands that are not executed change nothing.
            ok = True
        return dict(ok=ok, comments=plain, exp=_ser(exp), got=_ser(got),
                    admin_author=author_is_admin, robot=robot)
    return h


def _ser(x):
    if x[0] == 'ok':
        return ['ok', {k: (sorted(v) if isinstance(v, set) else v) for k, v in x[1].items()}]
    return list(x)


def replay(data):
    if isinstance(data, dict) and data.get('kind') == 'userdict':
        from . import userdict
        return userdict.replay(data)
    if isinstance(data, dict) and data.get('part') == 'api':
        from . import c14
        return c14.replay(data)
    if isinstance(data, dict) and data.get('kind') == 'authoropts':
        from . import authoropts
        return authoropts.replay(data)
    common.install_common_stubs()
    import bert_e.workflow.gitwaterflow as gwf
    import bert_e.reactor as RX
    common.silence(gwf, RX)
    gwf.setup(data.get('defaults') or {})
    if data.get('part') == 'lemma':
        return True
    got = run_real([tuple(c) for c in data['comments']], data['admin_author'], data.get('robot', 'robot'))
    return _ser(got) != data['exp'] and not (data['exp'][0] == 'command' and got[0] == 'command')


def slash_lemma(rep):
    """Every text matching the slash pattern is a sequence of /-prefixed words."""
    import ast
    import inspect
    from bert_e.reactor import Reactor
    src = inspect.getsource(Reactor.handle_options)
    pats = [n.args[0].value for n in ast.walk(ast.parse('class X:\n' + src))
            if isinstance(n, ast.Call) and getattr(n.func, 'attr', '') == 'match'
            and isinstance(n.args[0], ast.Constant)]
    slash = [p for p in pats if p.startswith('^/')]
    if not slash:
        rep.error('slash pattern not found in handle_options')
        return
    q = R.Q()
    W = R.charset(lambda c: c.isalnum() or c in '_=')
    sepc = R.charset(lambda c: c.isspace() or c in ',.-:;|+')
    word = z3.Concat(z3.Re('/'), z3.Plus(W))
    spec = z3.Concat(word, z3.Star(z3.Concat(z3.Plus(sepc), word)), z3.Star(R.charset(lambda c: c.isspace())))
    ok, w = q.equal(R.lang(slash[0]), spec, 'slash syntax language')
    rep.transitions += 2
    rep.queries += q.n
    if not ok:
        rep.cexs.append(Cex('C07', 'slash option syntax differs from /word(sep /word)*',
                            dict(part='lemma', w=w), True, 'witness %r' % w))
    rep.add_part('slash syntax lemma (rx2z3)', queries=q.n)


def _run(cfg):
    import bert_e.workflow.gitwaterflow as gwf
    n, short, admin_author, defaults = cfg
    gwf.setup(defaults)
    T, groups = text_set('quick')
    texts = short_set(T, groups) if short else T
    results, st = explore(make_harness(texts, n, admin_author, defaults), max_paths=3000000)
    bad = [r for _, r in results if not r['ok']]
    gwf.setup({})
    return cfg, len(results), bad[:20], st.as_dict()


def check(rep):
    rep.stubs += common.install_common_stubs()
    import bert_e.workflow.gitwaterflow as gwf
    import bert_e.reactor as RX
    common.silence(gwf, RX)
    gwf.setup({})
    rep.functions_encoded += ['gitwaterflow.handle_comments', 'reactor.Reactor.init_settings/handle_options/'
                              'handle_commands', 'commands.setup (live registry)', 'commands.after_pull_request']
    T, groups = text_set(rep.tier)
    rep.bounds = dict(robot_names=ROBOTS, comments='1 (all %d texts) / 2-3 (9 representative texts)' % len(T), roles=ROLES,
                      author_is_admin=[False, True])
    rep.assumptions += ['a comment whose first keyword is a command is a command call (its other '
                        'words are arguments)']
    rep.outside_claim += ['the text grammar as a symbolic string (tokenisation is exercised on the '
                          'generated text set only)', 'options applied by earlier keywords of a comment that '
                          'then raises: the exception aborts the job, the settings are discarded']
    cfgs = []
    for aa in (False, True):
        cfgs.append((1, False, aa, {}))
        cfgs.append((2, True, aa, {}))
    cfgs.append((1, False, False, {'bypass_jira_check': True}))
    if rep.tier == 'thorough':
        cfgs.append((3, True, False, {}))
        cfgs.append((3, True, True, {}))
        cfgs.append((2, True, False, {'bypass_jira_check': True, 'approve': True}))
    outs = common.pmap(_run, cfgs)
    seen = set()
    for cfg, n, bad, st in outs:
        rep.add_stats(st, '%d comment(s)%s%s' % (cfg[0], ' author-is-admin' if cfg[2] else '',
                                                 ' defaults=%s' % cfg[3] if cfg[3] else ''))
        rep.validated += n - len(bad)
        for r in bad:
            sig = 'options: expected %s, code %s' % (r['exp'][:2] if r['exp'][0] != 'ok' else 'ok',
                                                       r['got'][:2] if r['got'][0] != 'ok' else 'ok')
            if sig in seen:
                continue
            seen.add(sig)
            data = dict(comments=r['comments'], admin_author=r['admin_author'], exp=r['exp'],
                        defaults=cfg[3], robot=r.get('robot', 'robot'))
            rep.cexs.append(Cex('C07', sig, data, replay(data), 'comments %s: expected %s got %s' % (
                r['comments'], r['exp'], r['got'])))
    slash_lemma(rep)
    gwf.setup({})
    rep.sample(dict(texts=[t[0] for t in T[:8]], roles=ROLES))
    # the per-author settings as a source of these bypasses (real loader + accessors)
    from . import authoropts
    authoropts.check(rep, 'C07', ['bypass_author_approval', 'bypass_peer_approval', 'bypass_leader_approval', 'bypass_build_status', 'bypass_jira_check', 'bypass_incompatible_branch', 'bypass_commit_size'])
    from . import c14
    c14.eval_api_part(rep, 'C07')
    from . import userdict
    userdict.check(rep, 'C07')

