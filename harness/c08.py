"""C08 - Bert-E never rewrites or deletes what it does not own.

(a) fast-forward / foreign-ref monitors on the symbolic queue-merge and
    direct-merge runs, with a symbolic third-party action before each push
    (gitprops.py);
(b) the delete-branch admin job (the one allowed deletion): the archive tag is
    published before the deletion and points at the deleted tip, nothing else is
    touched (the delete configurations of c20.py, real delete_branch on symgit);
(c) the Branch.remove guard.
"""
import z3

from symx.core import explore
from symx.report import Cex
from . import gitprops, common, histcheck


def delete_part(rep):
    from . import c20
    cfgs = c20.delete_configs(rep.tier)
    outs = common.pmap(c20._run, cfgs)
    seen = set()
    for c, results, st in outs:
        rep.add_stats(st, 'delete-branch %s%s' % (c['victim'], ' +refusals' if c.get('reject') else ''))
        for _, r in results:
            for b in r['bad']:
                lab = b['label']
                if not ('archive tag' in lab or 'changed other refs' in lab or
                        'deleted the branch all the same' in lab):
                    continue            # refusal / transactionality clauses belong to C20
                if lab in seen:
                    continue
                seen.add(lab)
                data = dict(cfg=c, world=b['world'], label=lab, oplog=b['oplog'], part='delete')
                try:
                    ok = c20.replay(data)
                except Exception as e:
                    ok = False
                    rep.error('replay failed: %r' % (e,))
                rep.cexs.append(Cex('C08', 'delete-branch: ' + lab, data, ok,
                                    '%s on delete %s' % (lab, c['victim'])))
    rep.functions_encoded.append('jobs.delete_branch.delete_branch/do_delete (archive tag before deletion)')


def remove_guard(rep):
    """Branch.remove refuses any name outside w/, q/, tmp/ unless forced - real
    method on a recording repository, names drawn by the solver from each class."""
    import rx2z3 as R
    from bert_e.lib import git as G
    from .c18 import factory_order
    q = R.Q()
    names = []
    for c in factory_order():
        names += q.members(R.lang(c.pattern), 3, maxlen=24)
    names += ['wx/1', 'q', 'tmp', 'w', 'development/w/x', ' w/x', 'W/x']
    for n in names:
      for do_push in (True, False):
        log = []
        repo = type('R', (), {'cmd': lambda self, *a, **k: log.append(a) or '',
                              'push': lambda self, x: log.append(('push', x))})()
        b = G.Branch(repo, n)
        own = n.startswith(('w/', 'q/', 'tmp/'))
        try:
            b.remove(do_push=do_push)
            refused = False
        except G.ForbiddenOperation:
            refused = True
        rep.transitions += 1
        if refused == own or (refused and log):
            rep.cexs.append(Cex('C08', 'Branch.remove guard wrong', dict(part='guard', name=n), True,
                                'name %r do_push=%s: refused=%s commands=%s' % (n, do_push, refused, log)))
            return
        rep.validated += 1
    rep.queries += q.n


def check(rep):
    gitprops.run(rep, 'C08')
    delete_part(rep)
    remove_guard(rep)
    histcheck.check(rep, 'C08')


def replay(data):
    if 'history' in data:
        return histcheck.replay('C08', data)
    if data.get('part') == 'delete':
        from . import c20
        return c20.replay(data)
    return gitprops.replay(data)
