"""C08 on the symbolic repository (see gitprops.py)."""
from . import gitprops


def check(rep):
    gitprops.run(rep, 'C08')


replay = gitprops.replay
