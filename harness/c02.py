"""C02 on the symbolic repository (see gitprops.py)."""
from . import gitprops


def check(rep):
    gitprops.run(rep, 'C02')


replay = gitprops.replay
