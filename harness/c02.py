"""C02 on the symbolic repository (see gitprops.py)."""
from . import gitprops, histcheck


def check(rep):
    gitprops.run(rep, 'C02')
    histcheck.check(rep, 'C02')


def replay(data):
    if 'history' in data:
        return histcheck.replay('C02', data)
    return gitprops.replay(data)
