"""C04 - the review gate.

Real code: gitwaterflow.check_approvals, utils.bypass_{peer,leader,author}_approval,
PullRequestJob.author_bypass (real property on a real PullRequestJob object made
with __new__), SettingsDict attribute access.

Symbolic: required counts (Int >= 0, unbounded), every boolean setting, the
per-author bypasses, approvers / participants / change requesters / project
leaders as four arbitrary subsets of a 5-user universe.
"""
import types
import z3

from symx.core import (SBool, SInt, SSet, SEnum, sym_set, sym_len, explore,
                       model_value, HarnessError)
from symx.report import Cex
from . import common

U = ['author', 'peer1', 'peer2', 'leader', 'robot']
FLAGS = ['need_author_approval', 'bypass_peer_approval',
         'bypass_leader_approval', 'bypass_author_approval', 'approve',
         'unanimity', 'ab_peer', 'ab_leader', 'ab_author', 'has_ab']
SETS = ['approvals', 'participants', 'crs', 'leaders']
INTS = ['req_peer', 'req_lead']


def _vars():
    v = {k: z3.Bool(k) for k in FLAGS}
    v.update({k: z3.BitVec(k, 5) for k in SETS})
    v.update({k: z3.Int(k) for k in INTS})
    return v


def precondition(v):
    """Documented contracts of the inputs (part of the claim)."""
    robot = 1 << 4
    app = z3.If(v['approve'], v['approvals'] | 1, v['approvals'])
    return z3.And(
        v['req_peer'] >= 0, v['req_lead'] >= 0,
        # host contract: whoever approved (or wrote `approve`) is a participant
        (app & ~v['participants'] & ~z3.BitVecVal(robot, 5)) == 0,
        # no per-author entry => its three flags are absent
        z3.Implies(z3.Not(v['has_ab']),
                   z3.Not(z3.Or(v['ab_peer'], v['ab_leader'], v['ab_author']))),
    )


def oracle(v):
    """The C04 statement as a formula: pass <=> ..."""
    bit = lambda bv, i: z3.Extract(i, i, bv) == 1          # noqa
    cnt = lambda bv, idx: z3.Sum([z3.If(bit(bv, i), 1, 0) for i in idx])  # noqa
    app = z3.If(v['approve'], v['approvals'] | 1, v['approvals'])
    byp_peer = z3.Or(v['bypass_peer_approval'], v['ab_peer'])
    byp_lead = z3.Or(v['bypass_leader_approval'], v['ab_leader'])
    byp_auth = z3.Or(v['bypass_author_approval'], v['ab_author'])
    author_ok = z3.Or(z3.Not(v['need_author_approval']), byp_auth, bit(app, 0))
    peers_ok = z3.Or(byp_peer, cnt(app, (1, 2, 3, 4)) >= v['req_peer'])
    nlead = cnt(app & v['leaders'], range(5)) + z3.If(
        z3.And(bit(v['leaders'], 0), z3.Not(bit(app, 0))), 1, 0)
    leaders_ok = z3.Or(byp_lead, nlead >= v['req_lead'])
    nonrobot = z3.BitVecVal(0b01111, 5)
    unanimity_ok = z3.Implies(
        v['unanimity'], (v['participants'] & nonrobot & ~app) == 0)
    waived = z3.And(
        z3.Or(z3.Not(v['need_author_approval']), byp_auth, v['approve']),
        z3.Or(byp_peer, v['req_peer'] <= 0),
        z3.Or(byp_lead, v['req_lead'] <= 0),
        z3.Not(v['unanimity']))
    no_cr = z3.Or(v['crs'] == 0, waived)
    return z3.And(author_ok, peers_ok, leaders_ok, unanimity_ok, no_cr)


def _setup_module(gwf):
    gwf.set = sym_set
    gwf.len = sym_len
    gwf.locals = lambda: {}
    import builtins
    gwf.list = lambda x=(): [] if isinstance(x, SSet) else builtins.list(x)
    common.silence(gwf)


def _unset_module(gwf):
    for n in ('set', 'len', 'locals', 'list'):
        gwf.__dict__.pop(n, None)


def make_job(vals, symbolic):
    """Build a real PullRequestJob around symbolic or concrete values."""
    from bert_e.job import PullRequestJob
    from bert_e.lib.settings_dict import SettingsDict
    if symbolic:
        B = lambda k: SBool(vals[k])                        # noqa
        I = lambda k: SInt(vals[k])                         # noqa
        S = lambda k: SSet(U, vals[k])                      # noqa
    else:
        B = lambda k: bool(vals[k])                         # noqa
        I = lambda k: int(vals[k])                          # noqa
        S = lambda k: {u for i, u in enumerate(U) if vals[k] >> i & 1}  # noqa
    pr = types.SimpleNamespace(
        author='author', id=1,
        get_participants=lambda: S('participants'),
        get_approvals=lambda: S('approvals'),
        get_change_requests=lambda: S('crs'))
    pr_author_options = {}
    has_ab = vals['has_ab']
    if symbolic:
        has_ab = bool(SBool(has_ab))          # fork: entry present or not
    if has_ab:
        pr_author_options['author'] = {
            'bypass_peer_approval': B('ab_peer'),
            'bypass_leader_approval': B('ab_leader'),
            'bypass_author_approval': B('ab_author'),
            'bypass_build_status': False, 'bypass_jira_check': False}
    job_level = {k: B(k) for k in ('bypass_peer_approval',
                                   'bypass_leader_approval',
                                   'bypass_author_approval', 'approve',
                                   'unanimity')}
    global_level = dict(
        required_peer_approvals=I('req_peer'),
        required_leader_approvals=I('req_lead'),
        need_author_approval=B('need_author_approval'),
        robot='robot', project_leaders=S('leaders'),
        pr_author_options=pr_author_options)
    job = PullRequestJob.__new__(PullRequestJob)
    job.settings = SettingsDict(job_level, global_level)
    job.start_time = job.end_time = None
    job.id = 'c04'
    job.bert_e = types.SimpleNamespace(settings=types.SimpleNamespace(
        pull_request_base_url='http://x/{pr_id}'))
    job.pull_request = pr
    return job


def run_real(vals, symbolic):
    import bert_e.workflow.gitwaterflow as gwf
    from bert_e import exceptions
    job = make_job(vals, symbolic)
    try:
        gwf.check_approvals(job)
        return True
    except exceptions.ApprovalRequired:
        return False


def concrete_vals(m, v):
    return {k: model_value(m, t) for k, t in v.items()}


def eval_oracle(vals):
    v = _vars()
    subs = []
    for k, t in v.items():
        x = vals[k]
        if k in FLAGS:
            subs.append((t, z3.BoolVal(bool(x))))
        elif k in SETS:
            subs.append((t, z3.BitVecVal(int(x), 5)))
        else:
            subs.append((t, z3.IntVal(int(x))))
    pre = z3.simplify(z3.substitute(precondition(v), *subs))
    o = z3.simplify(z3.substitute(oracle(v), *subs))
    return z3.is_true(pre), z3.is_true(o)


def replay(vals):
    """Concrete run of the real code; True iff it disagrees with the oracle."""
    if isinstance(vals, dict) and 'history' in vals:
        from . import histcheck
        return histcheck.replay('C04', vals)
    if isinstance(vals, dict) and vals.get('kind') == 'github_cache':
        return True          # finite choices: the path was run concretely
    if isinstance(vals, dict) and vals.get('kind') == 'github_reviews':
        return github_concrete([tuple(x) for x in vals['reviews']], vals['order'])
    if isinstance(vals, dict) and vals.get('kind') == 'authoropts':
        from . import authoropts
        return authoropts.replay(vals)
    import bert_e.workflow.gitwaterflow as gwf
    common.install_common_stubs()
    _unset_module(gwf)
    common.silence(gwf)
    pre, exp = eval_oracle(vals)
    got = run_real(vals, symbolic=False)
    return pre and (got != exp)


def _harness(ctx):
    v = _vars()
    ctx.assume(precondition(v))
    passed = run_real(v, symbolic=True)
    spec = oracle(v)
    r, m = ctx.sat_model(spec != z3.BoolVal(passed))
    ctx.stats.obligations += 1
    wit = None
    if r == 'sat':
        return dict(passed=passed, bad=concrete_vals(m, v), wit=None)
    # witness of the path (for replay against the implementation)
    r2, m2 = ctx.sat_model()
    if r2 == 'sat':
        wit = concrete_vals(m2, v)
    return dict(passed=passed, bad=None, wit=wit)


def _twin(ctx):
    """Reachability twin: a deliberately wrong oracle must be refuted."""
    v = _vars()
    ctx.assume(precondition(v))
    passed = run_real(v, symbolic=True)
    wrong = z3.And(oracle(v), v['crs'] == 0)     # ignores the waiver clause
    return ctx.sat(wrong != z3.BoolVal(passed)) == 'sat'


# ---------------------------------------------------------------------------
# what "approved on the host" / "outstanding change request" mean on GitHub: the real
# review summarisation (its docstring is the specification: only the last relevant review
# - APPROVED, DISMISSED, CHANGES_REQUESTED - of each reviewer counts)
GH_STATES = ['APPROVED', 'CHANGES_REQUESTED', 'COMMENTED', 'DISMISSED']
GH_USERS = ['Peer-One', 'lead']


def github_harness(n):
    import itertools
    perms = list(itertools.permutations(range(n)))
    if n > 3:
        perms = [perms[0], perms[-1]]      # timeline order and its reverse only (8^4 x 24 paths otherwise)

    def h(ctx):
        from bert_e.git_host import github as GH
        states, authors, revs = [], [], []
        for i in range(n):
            st = SEnum.fresh(ctx, 'review_state%d' % i, GH_STATES)
            a = ctx.choose('review_author%d' % i, len(GH_USERS))
            r = GH.Review.__new__(GH.Review)
            r.data = {'id': 100 + i, 'state': st, 'user': {'login': GH_USERS[a]}}
            states.append(st)
            authors.append(a)
            revs.append(r)
        order = perms[ctx.choose('api_order', len(perms))]
        pr = GH.PullRequest.__new__(GH.PullRequest)
        pr._reviews = [revs[k] for k in order]
        approvals = set(pr.get_approvals())
        changes = set(pr.get_change_requests())
        conds = []
        for u, name in enumerate(GH_USERS):
            mine = [i for i in range(n) if authors[i] == u]
            # last review of that user (timeline order = id order) that is not a plain comment
            appr = z3.BoolVal(False)
            chg = z3.BoolVal(False)
            for i in mine:
                later_silent = z3.And(*[states[j].t == GH_STATES.index('COMMENTED') for j in mine if j > i])
                appr = z3.Or(appr, z3.And(states[i].t == GH_STATES.index('APPROVED'), later_silent))
                chg = z3.Or(chg, z3.And(states[i].t == GH_STATES.index('CHANGES_REQUESTED'), later_silent))
            conds.append(('github: %s counted as approver' % name, z3.BoolVal(name.lower() in approvals) == appr))
            conds.append(('github: %s counted as change requester' % name, z3.BoolVal(name.lower() in changes) == chg))
        ctx.stats.obligations += len(conds)
        r_, m = ctx.sat_model(z3.Not(z3.And(*[c for _, c in conds])))
        if r_ == 'sat':
            lab = [l for l, c in conds if z3.is_false(m.eval(c, model_completion=True))][0]
            return dict(bad=lab, reviews=[(GH_USERS[authors[i]], GH_STATES[model_value(m, states[i].t)]) for i in range(n)],
                        order=list(order))
        return dict(bad=None)
    return h


def github_concrete(reviews, order):
    from bert_e.git_host import github as GH
    revs = []
    for i, (a, st) in enumerate(reviews):
        r = GH.Review.__new__(GH.Review)
        r.data = {'id': 100 + i, 'state': st, 'user': {'login': a}}
        revs.append(r)
    pr = GH.PullRequest.__new__(GH.PullRequest)
    pr._reviews = [revs[k] for k in order]
    got = (sorted(pr.get_approvals()), sorted(pr.get_change_requests()))
    exp_a, exp_c = [], []
    for name in GH_USERS:
        mine = [st for (a, st) in reviews if a == name and st != 'COMMENTED']
        if mine and mine[-1] == 'APPROVED':
            exp_a.append(name.lower())
        if mine and mine[-1] == 'CHANGES_REQUESTED':
            exp_c.append(name.lower())
    return got != (sorted(exp_a), sorted(exp_c))


def github_cache_harness(ctx):
    """The GitHub client's conditional-request cache never serves data the server did not
    confirm: two GETs of the same listing (reviews, comments); between them the data may
    change; the second answer is 200 (new body), 304 (only legal when nothing changed and the
    client sent its validator), or an error (403 rate-limited, 500): the client must return
    the server's current data or raise."""
    from collections import defaultdict
    from bert_e.git_host import github as GH
    from bert_e.lib.lru_cache import LRUCache
    from requests import HTTPError
    has_etag = ctx.decide(z3.Bool('first_answer_has_etag'))
    changed = ctx.decide(z3.Bool('data_changed_between'))
    second = ['200', '304', '403-rate-limited', '500'][ctx.choose('second_status', 4)]
    if second == '304' and (changed or not has_etag):
        from symx.core import PathAbort
        raise PathAbort()                   # not a legal server behaviour
    bodies = ['[{"state": "APPROVED"}]', '[{"state": "CHANGES_REQUESTED"}]']
    calls = []

    class Resp:
        def __init__(self, code, text, headers):
            self.status_code, self.text, self.headers = code, text, headers

        def raise_for_status(self):
            if self.status_code >= 400:
                raise HTTPError('%d error' % self.status_code, response=self)

    class Session:
        headers = {}

        def get(self, url, **kw):
            calls.append(kw.get('headers', {}))
            if len(calls) == 1:
                return Resp(200, bodies[0], {'ETag': 'W/"v1"'} if has_etag else {})
            cur = bodies[1] if changed else bodies[0]
            if second == '200':
                return Resp(200, cur, {'ETag': 'W/"v2"'})
            if second == '304':
                return Resp(304, '', {})
            if second == '500':
                return Resp(500, 'oops', {})
            return Resp(403, '{"message": "API rate limit exceeded"}', {'X-RateLimit-Remaining': '0'})
    cl = GH.Client.__new__(GH.Client)
    cl.session = Session()
    cl.base_url = 'https://api.github.com'
    cl.query_cache = defaultdict(LRUCache)
    first = cl.get('/repos/o/r/pulls/1/reviews')
    try:
        got = cl.get('/repos/o/r/pulls/1/reviews')
        out = 'returned'
    except HTTPError:
        got, out = None, 'raised'
    import json as _json
    cur = _json.loads(bodies[1] if changed else bodies[0])
    ctx.stats.obligations += 1
    bad = None
    if first != _json.loads(bodies[0]):
        bad = 'first answer altered'
    elif out == 'returned' and got != cur:
        bad = 'stale data returned instead of the current data or an error'
    elif out == 'raised' and second in ('200', '304'):
        bad = 'a valid answer was turned into an error'
    return dict(bad=bad, vals=dict(has_etag=has_etag, changed=changed, second=second), out=out)


def github_cache_part(rep):
    results, st = explore(github_cache_harness)
    rep.add_stats(st, 'github client conditional-request cache')
    rep.functions_encoded += ['git_host.github.Client.get/_get/_cache_value/_get_cached_value']
    for _, r in results:
        if r['bad']:
            rep.cexs.append(Cex('C04', 'github client: ' + r['bad'],
                                dict(kind='github_cache', vals=r['vals']), True,
                                '%s with %r (second call %s)' % (r['bad'], r['vals'], r['out'])))
            break
        rep.validated += 1


def _gh_explore(n):
    results, st = explore(github_harness(n), max_depth=400)
    return results, st.as_dict()


def github_part(rep):
    rep.functions_encoded += ['git_host.github.PullRequest.get_summarized_reviews/get_approvals/get_change_requests/'
                              'get_participants', 'git_host.github.Review.approved/commented/changes_requested']
    nmax = 3 if rep.tier == 'quick' else 4
    rep.bounds['github reviews'] = dict(reviews='1..%d' % nmax, reviewers=GH_USERS, states=GH_STATES,
                                        api_order='every permutation (4 reviews: timeline order and its reverse)')
    for (results, st), n in zip(common.pmap(_gh_explore, list(range(1, nmax + 1))), range(1, nmax + 1)):
        rep.add_stats(st, 'github review summarisation, %d reviews' % n)
        seen = set()
        for _, r in results:
            if r['bad'] and r['bad'] not in seen:
                seen.add(r['bad'])
                data = dict(kind='github_reviews', reviews=r['reviews'], order=r['order'])
                rep.cexs.append(Cex('C04', 'github review summarisation: the last relevant review of a reviewer does not decide',
                                    data, github_concrete(r['reviews'], r['order']),
                                    '%s with reviews %r (API order %r)' % (r['bad'], r['reviews'], r['order'])))


def check(rep):
    import bert_e.workflow.gitwaterflow as gwf
    rep.stubs += common.install_common_stubs()
    rep.stubs += ['gitwaterflow.set/len/list/locals shadowed by proxy-aware '
                  'versions (module globals; bytecode unchanged)']
    rep.functions_encoded += [
        'bert_e.workflow.gitwaterflow.check_approvals',
        'bert_e.workflow.gitwaterflow.utils.bypass_peer_approval',
        'bert_e.workflow.gitwaterflow.utils.bypass_leader_approval',
        'bert_e.workflow.gitwaterflow.utils.bypass_author_approval',
        'bert_e.job.PullRequestJob.author_bypass',
        'bert_e.lib.settings_dict.SettingsDict.__getattr__']
    rep.bounds = dict(users=5, required_peer_approvals='Int >= 0 (unbounded)',
                      required_leader_approvals='Int >= 0 (unbounded)',
                      project_leaders='arbitrary subset of the 5 users')
    rep.assumptions += [
        'host contract: approvers (and an author who wrote `approve`) are '
        'listed among the participants; under it the implementation\'s '
        '`approvals == participants` and the statement\'s `every participant '
        'approved` coincide',
        'comment option and command-line default share one settings slot '
        '(checked in C07); per-author options come through '
        'PullRequestJob.author_bypass']
    rep.outside_claim += ['host-specific computation of get_approvals / '
                          'get_participants / get_change_requests',
                          'message rendering']
    _setup_module(gwf)
    try:
        depth = 7 if rep.tier == 'quick' else 8
        results, st = common.explore_parallel(_harness, split_depth=depth)
        rep.add_stats(st, 'check_approvals vs statement oracle')
        npass = sum(1 for _, r in results if r['passed'])
        nref = sum(1 for _, r in results if not r['passed'])
        if npass == 0 or nref == 0:
            rep.error('vacuity: outcome class never reached (pass=%d refuse=%d)'
                      % (npass, nref))
        # reachability twin
        tw, st2 = common.explore_parallel(_twin, split_depth=depth)
        rep.add_part('reachability twin', paths=st2.paths,
                     refuted_paths=sum(1 for _, b in tw if b))
        if not any(b for _, b in tw):
            rep.error('reachability twin was not refuted (harness vacuous)')
    finally:
        _unset_module(gwf)
    # witness replay on the unshadowed implementation
    wits = [r['wit'] for _, r in results if r['wit'] is not None]
    idx = common.sample_indices(len(wits), 400 if rep.tier == 'quick' else 4000,
                                rep.seed)
    for i in idx:
        vals = wits[i]
        pre, exp = eval_oracle(vals)
        got = run_real(vals, symbolic=False)
        if not pre or got != exp:
            rep.error('witness replay mismatch on %r' % vals)
            break
        rep.validated += 1
    for w in wits[:3]:
        rep.sample(dict(inputs=w, passes=eval_oracle(w)[1]))
    seen = set()
    for _, r in results:
        if r['bad'] is not None:
            vals = r['bad']
            sig = 'check_approvals disagrees with the statement'
            ok = replay(vals)
            key = (r['passed'],)
            if key in seen and ok:
                continue
            seen.add(key)
            rep.cexs.append(Cex('C04', sig, vals, ok,
                                'code %s but statement says %s on %r'
                                % ('passes' if r['passed'] else 'refuses',
                                   'refuse' if r['passed'] else 'pass', vals)))
    # the per-author settings as a source of these bypasses (real loader + accessors)
    from . import authoropts
    authoropts.check(rep, 'C04', ['bypass_author_approval', 'bypass_peer_approval', 'bypass_leader_approval'])
    github_part(rep)
    github_cache_part(rep)
    # the gate over a sequence of jobs on one server (per-author options are shared state)
    from . import histcheck
    histcheck.check(rep, 'C04')

