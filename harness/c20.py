"""C20 - branch and queue admin jobs keep the repository well-formed or do nothing.

Real code: jobs.create_branch.create_branch, jobs.delete_branch.delete_branch /
do_delete, jobs.delete_queues.delete_queues, jobs.rebuild_queues.rebuild_queues,
QueueCollection.queued_prs / has_version_queued_prs, BranchCascade.build /
validate, on a symgit repository: the commit graph and every ref tip are
symbolic; which refs and tags exist is enumerated.
"""
import types
import z3

from symx.core import SBool, explore, model_value, HarnessError, PathAbort, Ctx
from symx.report import Cex
import symgit
from symgit import SymRepo, SSha
from . import common, gitflow as GF
from .gitflow import PR

SHAPE = ['development/4.3', 'development/5.1', 'development/10.0']
SHAPE_S = ['development/4.3', 'stabilization/5.1.4', 'development/5.1', 'development/10.0']
SHAPE_H = ['hotfix/4.2.17', 'development/4.3', 'development/5.1']
SHAPE_M = ['development/4.3', 'development/10.0', 'development/10']


def make_job(cls, repo, host, settings, use_queue=True, processed=None):
    berte = GF.make_berte(repo, host, use_queue=use_queue)
    if processed is not None:
        berte.process = lambda j: processed.append(j)
    job = cls(bert_e=berte, settings=settings)
    return job, berte


# ---------------------------------------------------------------------------
def create_configs(tier):
    C = []

    def add(shape, new, frm=None, tags=(), queued=False, use_queue=True, **kw):
        C.append(dict(kind='create', shape=shape, new=new, frm=frm, tags=list(tags),
                      queued=queued, use_queue=use_queue, **kw))
    add(SHAPE, 'development/11.0')
    add(SHAPE, 'development/5.0')                       # between
    add(SHAPE, 'development/4.0')                       # older than all
    add(SHAPE, 'development/5.0', queued=True)          # must refuse: queued + older than newest
    add(SHAPE, 'development/11.0', queued=True)         # allowed: newest
    add(SHAPE, 'development/5.0', queued=True, use_queue=False)
    add(SHAPE, 'development/5.1')                       # exists
    add(SHAPE, 'development/5.0', tags=['5.0'])         # archived
    add(SHAPE, 'stabilization/5.1.4', tags=['5.1.3'])
    add(SHAPE, 'stabilization/6.0.0')                   # no supporting dev
    add(SHAPE, 'development/11.0', frm='atom')          # explicit branching point (a commit)
    add(SHAPE, 'development/5.0', frm='development/4.3')
    add(SHAPE, 'hotfix/4.3.17', tags=['4.3.17.0', '4.3.17'])
    add(SHAPE, 'release/4.3')
    add(SHAPE, 'feature/x')
    # the newest development branch is major-only (development/10 comes after every 10.*)
    add(SHAPE_M, 'development/10.1', queued=True)       # must refuse: older than development/10
    add(SHAPE_M, 'development/10.1')
    add(SHAPE_M, 'development/11.0', queued=True)       # allowed: newest
    for c in (dict(C[0]), dict(C[2])):
        c['reject'] = True
        C.append(c)
    if tier == 'thorough':
        add(SHAPE_S, 'development/5.2', tags=['5.1.3'])
        add(SHAPE_S, 'stabilization/5.1.5', tags=['5.1.3'])
        add(SHAPE, 'development/5.0', frm='atom')
        add(SHAPE, 'stabilization/5.1.4', tags=['5.1.3'], queued=True)
    return C


def delete_configs(tier):
    C = []

    def add(shape, victim, tags=(), queued=None, use_queue=True, qrefs=True, **kw):
        C.append(dict(kind='delete', shape=shape, victim=victim, tags=list(tags),
                      queued=queued, use_queue=use_queue, qrefs=qrefs, **kw))
    add(SHAPE, 'development/4.3', qrefs=False)
    add(SHAPE, 'development/4.3', queued='development/5.1')          # queued elsewhere
    add(SHAPE, 'development/5.1', queued='development/5.1')          # queued on it: refuse
    add(SHAPE, 'development/10.0', queued='development/5.1')         # targeted by the PR: refuse
    add(SHAPE_S, 'development/5.1', qrefs=False)                     # live stab: refuse
    add(SHAPE_S, 'stabilization/5.1.4', qrefs=False)
    add(SHAPE, 'development/4.3', tags=['4.3'], qrefs=False)         # archive tag exists
    add(SHAPE, 'development/7.7', qrefs=False)                       # does not exist
    add(SHAPE, 'development/4.3', use_queue=False, qrefs=False)
    add(SHAPE, 'development/4.3', qrefs=True)                        # empty queue branch exists
    add(SHAPE, 'feature/x', qrefs=False)
    # a hotfix branch has one queue per hotfix revision: q/<x.y.z.n> (n from the tags)
    H = ['bugfix/h', 'q/w/1/4.2.17.2/bugfix/h']
    add(SHAPE_H, 'hotfix/4.2.17', tags=['4.2.17.1'], qrefs=False,
        extra_refs=['q/4.2.17.1', 'q/4.2.17.2'] + H, hotfix_queued=True)     # drained queue + live one: refuse
    add(SHAPE_H, 'hotfix/4.2.17', tags=['4.2.17.1'], qrefs=False,
        extra_refs=['q/4.2.17.2'] + H, hotfix_queued=True)                   # refuse
    add(SHAPE_H, 'hotfix/4.2.17', tags=['4.2.17.1'], qrefs=False,
        extra_refs=['q/4.2.17.1', 'q/4.2.17.2'])                             # two drained queues: delete
    add(SHAPE_H, 'hotfix/4.2.17', tags=[], qrefs=False)                      # no queue at all: delete
    for c in (dict(C[0]), dict(C[5]), dict(C[9])):
        c['reject'] = True
        C.append(c)
    return C


def world(ctx, c):
    shape = c['shape']
    prs = []
    queued = c.get('queued')
    if queued:
        dst = queued if isinstance(queued, str) else 'development/4.3'
        prs = [PR(1, 'feature/a', dst)]
    refs = list(shape)
    if c.get('qrefs', True) or prs:
        refs += ['q/' + GF.version_of(d) for d in shape]
    for p in prs:
        refs.append(p.src)
        for t in GF.targets(shape, p.dst):
            refs.append(GF.qw_name(p, shape, t))
    refs.append('feature/unrelated')
    refs += list(c.get('extra_refs', ()))
    repo = SymRepo(ctx, refs, len(refs) + 1, 6, tags=c['tags'])
    repo.log_cut = True
    if c.get('reject'):
        repo.reject_refs = 'all'       # the server may refuse any single ref / tag
    ctx.assume(symgit.status_domain(repo, repo.W))
    GF.assume_inclusion(ctx, repo, shape)
    host = GF.Host(repo, prs, ctx)
    return repo, host, prs


def run_create(ctx, c):
    from bert_e.jobs.create_branch import CreateBranchJob, create_branch
    from bert_e import exceptions as ex
    from bert_e.lib import git as G
    repo, host, prs = world(ctx, c)
    shape = c['shape']
    new = c['new']
    settings = {'branch': new}
    if c['frm'] == 'atom':
        a = ctx.fresh_int('branch_from_atom')
        ctx.assume(z3.And(a >= 0, a < repo.N))
        settings['branch_from'] = SSha(repo, a)
    elif c['frm']:
        settings['branch_from'] = c['frm']
    newshape = shape + [new] if GF.parse_dest(new) and new not in shape else list(shape)
    repo.monitors = [GF.mon_inclusion(newshape), GF.mon_fast_forward(shape),
                     GF.mon_foreign(newshape)]
    processed = []
    job, berte = make_job(CreateBranchJob, repo, host, settings, c['use_queue'], processed)
    try:
        create_branch(job)
        out = 'returned'
    except ex.JobSuccess:
        out = 'JobSuccess'
    except ex.JobFailure:
        out = 'JobFailure'
    except ex.NothingToDo:
        out = 'NothingToDo'
    except G.PushFailedException:
        out = 'PushFailed'
    pushed = new in repo.remote and new not in repo.pre_remote
    return repo, out, pushed, processed, newshape


def create_oracle(c, repo, out, pushed, processed, newshape):
    """Conditions that must hold (statement): returns [(label, cond)]."""
    conds = []
    new = c['new']
    k = GF.parse_dest(new)
    refusing = out in ('JobFailure', 'NothingToDo')
    ops = [o for o in repo.remote_ops if o['kind'] in ('update', 'delete', 'tag')]
    conds.append(('a refusing create-branch job touched the remote', z3.BoolVal(not (refusing and ops))))
    if pushed:
        conds.append(('pushed a name that is not a destination branch', z3.BoolVal(k is not None)))
        if k is not None:
            conds.append(('pushed although the version is archived',
                          z3.BoolVal(GF.version_of(new) not in c['tags'])))
            if k[0] == 'stab':
                conds.append(('pushed a stabilization branch without its development branch',
                              z3.BoolVal('development/%d.%d' % (k[1], k[2]) in c['shape'])))
            if k[0] == 'dev' and c['use_queue'] and c['queued']:
                devs = GF.ordered_devs(newshape)
                conds.append(('pushed an older development branch while pull requests are queued',
                              z3.BoolVal(devs[-1] == new)))
        others = [o for o in ops if o['ref'] != new]
        conds.append(('create-branch changed other refs', z3.BoolVal(not others)))
        if c['use_queue'] and k and k[0] == 'dev':
            conds.append(('queues are rebuilt after a development branch is added',
                          z3.BoolVal(len(processed) == 1 and
                                     type(processed[0]).__name__ == 'RebuildQueuesJob')))
    else:
        conds.append(('nothing pushed but the remote changed', z3.BoolVal(not ops)))
    return conds


def run_delete(ctx, c):
    from bert_e.jobs.delete_branch import DeleteBranchJob, delete_branch
    from bert_e import exceptions as ex
    repo, host, prs = world(ctx, c)
    repo.monitors = []
    job, berte = make_job(DeleteBranchJob, repo, host, {'branch': c['victim']}, c['use_queue'])
    try:
        delete_branch(job)
        out = 'returned'
    except ex.JobSuccess:
        out = 'JobSuccess'
    except ex.JobFailure:
        out = 'JobFailure'
    except ex.NothingToDo:
        out = 'NothingToDo'
    return repo, out, prs


def delete_oracle(c, repo, out, prs):
    conds = []
    shape, victim = c['shape'], c['victim']
    k = GF.parse_dest(victim)
    ops = [o for o in repo.remote_ops if o['kind'] in ('update', 'delete', 'tag')]
    refusing = out in ('JobFailure', 'NothingToDo')
    deleted0 = victim in repo.pre_remote and victim not in repo.remote
    if refusing and ops:
        kinds = sorted(set('tag' if o['kind'] == 'tag' else ('queue branch' if o['ref'].startswith('q/')
                                                               else o['ref']) for o in ops))
        if deleted0:
            lab = 'a failing delete-branch job deleted the branch all the same'
        elif repo.refused:
            lab = ('delete-branch is not transactional: the server refused %s after %s had been pushed'
                   % ('the tag' if any(r.startswith('tag:') for r in repo.refused) else 'the branch deletion',
                      ' and '.join('the ' + k if k in ('tag', 'queue branch') else k for k in kinds)))
        else:
            lab = 'a refusing delete-branch job touched the remote'
        conds.append((lab, z3.BoolVal(False)))
    deleted = victim in repo.pre_remote and victim not in repo.remote
    queued_on = (bool(prs) and victim in GF.targets(shape, prs[0].dst)) or bool(c.get('hotfix_queued'))
    live_stab = bool(k) and k[0] == 'dev' and any(
        GF.parse_dest(s)[0] == 'stab' and GF.parse_dest(s)[1:3] == k[1:3] for s in shape)
    archived = bool(k) and GF.version_of(victim) in c['tags'] and k[0] != 'hotfix'
    if deleted:
        conds.append(('deleted a branch that has queued pull requests',
                      z3.BoolVal(not (queued_on and c['use_queue']))))
        conds.append(('deleted a development branch with a live stabilization branch',
                      z3.BoolVal(not live_stab)))
        tagname = GF.version_of(victim) + ('.archived_hotfix_branch' if k and k[0] == 'hotfix' else '')
        tag_ops = [o for o in ops if o['kind'] == 'tag' and o['ref'] == tagname]
        del_ops = [o for o in ops if o['kind'] == 'delete' and o['ref'] == victim]
        conds.append(('archive tag not published before the deletion',
                      z3.BoolVal(bool(tag_ops) and bool(del_ops) and tag_ops[0]['n'] < del_ops[0]['n'])))
        if tag_ops:
            conds.append(('archive tag does not point at the deleted tip',
                          tag_ops[0]['new'] == repo.pre_remote[victim]))
        other = [o for o in ops if not (o['ref'] == victim or o['ref'] == tagname or
                                        o['ref'] == 'q/' + GF.version_of(victim))]
        conds.append(('delete-branch changed other refs', z3.BoolVal(not other)))
    else:
        if not refusing:
            conds.append(('nothing deleted but the remote changed', z3.BoolVal(not ops)))
        # the statement: refuses only for queued PRs / live stab (or: no such branch / archived)
        legit = (not k) or victim not in repo.pre_remote or (queued_on and c['use_queue']) or \
            live_stab or archived or bool(repo.refused)
        conds.append(('delete-branch refused although nothing is queued on the branch and no '
                      'stabilization branch is live', z3.BoolVal(bool(legit))))
    return conds


def run_queues_job(ctx, c):
    from bert_e.jobs.delete_queues import DeleteQueuesJob, delete_queues
    from bert_e.jobs.rebuild_queues import RebuildQueuesJob, rebuild_queues
    from bert_e import exceptions as ex
    from bert_e.lib import git as G
    repo, host, prs = world(ctx, c)
    cls, fn = (DeleteQueuesJob, delete_queues) if c['kind'] == 'delete_queues' \
        else (RebuildQueuesJob, rebuild_queues)
    job, berte = make_job(cls, repo, host, {}, c['use_queue'])
    put = []
    berte.put_job = lambda j: put.append(j)
    try:
        fn(job)
        out = 'returned'
    except ex.JobSuccess:
        out = 'JobSuccess'
    except ex.NotMyJob:
        out = 'NotMyJob'
    except G.PushFailedException:
        out = 'PushFailed'
    return repo, out, prs, put


def queues_oracle(c, repo, out, prs, put):
    conds = []
    ops = [o for o in repo.remote_ops if o['kind'] in ('update', 'delete', 'tag')]
    nonq = [o for o in ops if not o['ref'].startswith('q/')]
    conds.append(('queue job touched a ref outside q/*', z3.BoolVal(not nonq)))
    if out == 'JobSuccess' and c['use_queue']:
        left = [r for r in repo.remote if r.startswith('q/')]
        conds.append(('queue branches left after the queue job', z3.BoolVal(not left)))
    if c['kind'] == 'rebuild_queues' and out == 'JobSuccess':
        ids = [j.pull_request.id for j in put]
        conds.append(('rebuild re-submits exactly the queued pull requests',
                      z3.BoolVal(ids == [p.id for p in prs])))
    if out == 'NotMyJob':
        conds.append(('a refusing queue job touched the remote', z3.BoolVal(not ops)))
    return conds


def make_harness(c, twin=False):
    def h(ctx):
        if c['kind'] == 'create':
            repo, out, pushed, processed, newshape = run_create(ctx, c)
            conds = create_oracle(c, repo, out, pushed, processed, newshape)
            extra = dict(pushed=pushed)
        elif c['kind'] == 'delete':
            repo, out, prs = run_delete(ctx, c)
            conds = delete_oracle(c, repo, out, prs)
            extra = dict(deleted=c['victim'] not in repo.remote)
        else:
            repo, out, prs, put = run_queues_job(ctx, c)
            conds = queues_oracle(c, repo, out, prs, put)
            extra = {}
        if twin:
            conds.append(('twin', z3.BoolVal(not extra.get('pushed', False))))
        ctx.stats.obligations += len(conds)
        bad = []
        for label, cnd in conds:
            cnd = z3.simplify(cnd) if z3.is_expr(cnd) else z3.BoolVal(bool(cnd))
            if z3.is_true(cnd):
                continue
            r, m = ctx.sat_model(z3.Not(cnd))
            if r == 'sat':
                bad.append(dict(label=label, world=repo.concretize(m),
                                oplog=[' '.join(o) for o in repo.oplog][-30:]))
        for v in repo.violations:
            bad.append(dict(label=v.label, world=v.world, oplog=[' '.join(o) for o in v.oplog][-30:]))
        wit = None
        if not bad and c['kind'] in ('create', 'delete') and c.get('frm') != 'atom':
            r2, m2 = ctx.sat_model(repo.replay_prefs())
            if r2 == 'sat':
                wit = dict(world=repo.concretize(m2),
                           changed=bool([o for o in repo.remote_ops
                                         if o['kind'] in ('update', 'delete', 'tag')]))
        return dict(out=out, bad=bad, wit=wit, **extra)
    return h


def real_outcome(c, w):
    """Run the real job on a real repository realising the witness."""
    from symgit.realgit import RealWorld, RealHost
    from bert_e import exceptions as ex
    common.install_common_stubs()
    GF.silence_all()
    prs = [PR(1, 'feature/a', c['queued'] if isinstance(c.get('queued'), str) else 'development/4.3')] \
        if c.get('queued') else []
    wr = RealWorld(w['anc'], w['refs'], w.get('tags'),
                   reject=[r for r, b in w.get('rejected', {}).items() if b])
    try:
        host = RealHost(wr, w['status'], prs)
        repo = wr.repository()
        pre = (wr.heads(), wr.tag_refs())
        try:
            if c['kind'] == 'create':
                from bert_e.jobs.create_branch import CreateBranchJob, create_branch
                settings = {'branch': c['new']}
                if c['frm']:
                    settings['branch_from'] = c['frm']
                job, berte = make_job(CreateBranchJob, repo, host, settings, c['use_queue'], [])
                fn = create_branch
            else:
                from bert_e.jobs.delete_branch import DeleteBranchJob, delete_branch
                job, berte = make_job(DeleteBranchJob, repo, host, {'branch': c['victim']}, c['use_queue'])
                fn = delete_branch
            from bert_e.lib import git as G
            try:
                fn(job)
                out = 'returned'
            except (ex.JobSuccess, ex.JobFailure, ex.NothingToDo) as e:
                out = type(e).__name__
            except G.PushFailedException:
                out = 'PushFailed'
        finally:
            try:
                repo.delete()
            except Exception:
                pass
        return out, (wr.heads(), wr.tag_refs()) != pre
    finally:
        wr.cleanup()


# -- replay on real git -----------------------------------------------------------------------
def replay(data):
    """Rebuild the model's repository with /usr/bin/git, run the real job, and
    re-evaluate the violated condition on the real remote."""
    from symgit.realgit import RealWorld, RealHost
    from bert_e import exceptions as ex
    if 'history' in data:
        from . import histcheck
        return histcheck.replay('C20', data)
    if data.get('part') == 'readonly':
        from . import c14
        return c14.replay(data)
    common.install_common_stubs()
    GF.silence_all()
    c, w, label = data['cfg'], data['world'], data['label']
    prs = [PR(1, 'feature/a', c['queued'] if isinstance(c.get('queued'), str) else 'development/4.3')] \
        if c.get('queued') else []
    wr = RealWorld(w['anc'], w['refs'], w.get('tags'),
                   reject=[r for r, b in w.get('rejected', {}).items() if b])
    try:
        host = RealHost(wr, w['status'], prs)
        repo = wr.repository()
        pre = wr.heads()
        pre_tags = wr.tag_refs()
        try:
            if c['kind'] == 'create':
                from bert_e.jobs.create_branch import CreateBranchJob, create_branch
                settings = {'branch': c['new']}
                if c['frm'] == 'atom':
                    settings['branch_from'] = wr.sha[data.get('from_atom', 0)]
                elif c['frm']:
                    settings['branch_from'] = c['frm']
                processed = []
                job, berte = make_job(CreateBranchJob, repo, host, settings, c['use_queue'], processed)
                fn = create_branch
            elif c['kind'] == 'delete':
                from bert_e.jobs.delete_branch import DeleteBranchJob, delete_branch
                job, berte = make_job(DeleteBranchJob, repo, host, {'branch': c['victim']}, c['use_queue'])
                fn = delete_branch
            else:
                return True
            try:
                fn(job)
                out = 'returned'
            except (ex.JobSuccess, ex.JobFailure, ex.NothingToDo) as e:
                out = type(e).__name__
        finally:
            try:
                repo.delete()
            except Exception:
                pass
        post = wr.heads()
        post_tags = wr.tag_refs()
        changed = post != pre or post_tags != pre_tags
        if label.startswith('a failing delete-branch job deleted'):
            return out == 'JobFailure' and c['victim'] not in post
        if 'refusing' in label or 'nothing pushed' in label or 'nothing deleted' in label or \
                label.startswith('delete-branch is not transactional'):
            return out in ('JobFailure', 'NothingToDo') and changed
        if 'refused although' in label:
            return out == 'JobFailure' and not changed
        if c['kind'] == 'create':
            new = c['new']
            if new not in post or new in pre:
                return False
            if 'inclusion' in label:
                shape = c['shape'] + [new]
                for a, b in GF.inclusion_pairs(shape):
                    if a in post and b in post and not wr.is_ancestor(post[a], post[b]):
                        return True
                return False
            return True          # pushed although a condition forbids it
        if c['kind'] == 'delete':
            victim = c['victim']
            if victim in post:
                return False
            if 'archive tag' in label:
                tagname = GF.version_of(victim)
                return post_tags.get(tagname) != pre[victim]
            return True
        return False
    finally:
        wr.cleanup()


def _run(c):
    results, st = explore(make_harness(c), max_paths=100000)
    return c, results, st.as_dict()


def check(rep):
    rep.stubs += common.install_common_stubs()
    rep.stubs += GF.silence_all()
    import bert_e.jobs.create_branch as CB
    import bert_e.jobs.delete_branch as DB
    import bert_e.jobs.delete_queues as DQ
    import bert_e.jobs.rebuild_queues as RQ
    common.silence(CB, DB, DQ, RQ)
    rep.stubs += ['BertE.process (follow-up RebuildQueuesJob) and put_job -> recorded',
                  'git binary -> symgit; `git log` -> empty (message text only)']
    rep.functions_encoded += ['jobs.create_branch.create_branch', 'jobs.delete_branch.delete_branch/do_delete',
                              'jobs.delete_queues.delete_queues', 'jobs.rebuild_queues.rebuild_queues',
                              'branches.QueueCollection.queued_prs/has_version_queued_prs',
                              'branches.BranchCascade.build/validate/get_development_branches',
                              'lib.git.Branch.create/remove/exists', 'lib.git.Repository.push/remote_branches']
    cfgs = create_configs(rep.tier) + delete_configs(rep.tier)
    for uq in (True, False):
        for queued in (None, 'development/4.3'):
            for kind in ('delete_queues', 'rebuild_queues'):
                cfgs.append(dict(kind=kind, shape=SHAPE, tags=[], queued=queued, use_queue=uq))
    rep.bounds = dict(configurations=len(cfgs), atoms='#refs+1', queued_prs='0..1')
    rep.assumptions += ['C01 inclusion holds before the job',
                        'only the stated direction for create-branch (publishes only if ...)']
    rep.outside_claim += ['states reachable only through whole histories', 'force-merge job (C01-C03)']
    outs = common.pmap(_run, cfgs)
    outcomes = {}
    seen = set()
    for c, results, st in outs:
        name = '%s %s%s' % (c['kind'], c.get('new') or c.get('victim') or '', ' +refusals' if c.get('reject') else '')
        rep.add_stats(st, name + (' queued' if c.get('queued') else '') +
                      ('' if c['use_queue'] else ' no-queue') + (' tags=%s' % c['tags'] if c['tags'] else ''))
        for _, r in results:
            outcomes[(c['kind'], r['out'])] = outcomes.get((c['kind'], r['out']), 0) + 1
            for b in r['bad']:
                import re
                sig = '%s: %s' % (c['kind'], re.sub(r'(development|stabilization|hotfix)/[0-9.]+', '<dst>', b['label']))
                if sig in seen:
                    continue
                seen.add(sig)
                data = dict(cfg=c, world=b['world'], label=b['label'], oplog=b['oplog'])
                try:
                    ok = replay(data)
                except Exception as e:
                    ok = False
                    rep.error('replay failed: %r' % (e,))
                rep.cexs.append(Cex('C20', sig, data, ok, '%s on %s' % (b['label'], name)))
    rep.extra['outcomes'] = {'%s:%s' % k: v for k, v in sorted(outcomes.items())}
    for need in (('create', 'JobSuccess'), ('create', 'JobFailure'), ('delete', 'JobSuccess'),
                 ('delete', 'JobFailure'), ('delete_queues', 'JobSuccess'), ('rebuild_queues', 'JobSuccess')):
        if need not in outcomes:
            rep.error('vacuity: outcome never reached: %s' % (need,))
    tw, st = explore(make_harness(cfgs[0], twin=True))
    if not any(any(b['label'] == 'twin' for b in r['bad']) for _, r in tw):
        rep.error('reachability twin not refuted')
    rep.sample(dict(configuration=cfgs[3], expected='JobFailure, remote untouched'))
    # differential: one witness per configuration on a real repository
    todo = [(c, r['wit'], r['out']) for c, results, st in outs for _, r in results[:1] if r.get('wit')]

    def diff(item):
        c, wit, out = item
        got, changed = real_outcome(c, wit['world'])
        if got != out or changed != wit['changed']:
            return 'config %s: model (%s, changed=%s) real (%s, changed=%s)' % (
                c.get('new') or c.get('victim'), out, wit['changed'], got, changed)
        return None
    for prob in common.pmap(diff, todo, nproc=8):
        if prob:
            rep.error('symgit differs from /usr/bin/git: ' + prob)
        else:
            rep.validated += 1
    # the admin jobs in states reached by real jobs (pull requests queued by the real handler)
    from . import histcheck
    histcheck.check(rep, 'C20')
    # the order in which pending jobs are evaluated is the order of the task queue: no request that
    # only reads (status page, job listings) may change it (shared with C14)
    from . import c14
    c14.readonly_part(rep, 'C20')
