"""C09 - target cascade, ignored branches and fix versions are computed exactly.

Layer 1 (CrossHair, unbounded ints): ordering lemmas on compare_branches /
compare_queues (see crosshair/c09_order.py).
Layer 3 (rx2z3): the tag language accepted by update_versions.
Layer 4 (symx + TInt): the real BranchCascade.add_branch / update_versions /
_update_major_versions / finalize / _set_target_versions / validate on branch
objects built by the real constructors whose version numbers are replaced by
tagged symbolic integers (unbounded, >= 0); tags are fed as strings rendered
from symbolic numbers.  Structure (which branches / tags exist, insertion
order, destination) is enumerated; all numbers, hence all orderings and
coincidences between lines, are decided by the solver.
"""
import itertools
import os
import subprocess
import z3

from symx.core import SBool, explore, model_value, HarnessError, PathAbort, Ctx
from symx import tint
from symx.tint import TInt
from symx.report import Cex
import rx2z3 as R
from . import common


class FakeRepo:
    def cmd(self, *a, **k):
        return ''


# -- structures -------------------------------------------------------------------
# branch spec: (kind, line, name) ; kind in dev / devmajor / stab / hotfix
# line: index into the symbolic line table (M_i, m_i); stab/hotfix also have micro
# tag spec: (form, line or None, four)  form in plain / v / rc / hf_suffix / short
def structures(tier):
    S = []

    def add(branches, tags, dsts=None):
        S.append(dict(branches=branches, tags=tags, dsts=dsts))
    d0, d1, d2 = ('dev', 0), ('dev', 1), ('dev', 2)
    s0, s1 = ('stab', 0), ('stab', 1)
    add([d0, d1], [('plain', 0, False)])
    add([d0, d1], [('v', 1, False), ('rc', 0, False)])
    add([d0, d1, d2], [])
    add([d0, s0, d1], [('plain', 0, False)])
    add([d0, s1, d1], [('plain', 1, False), ('plain', None, False)])
    add([d0, ('devmajor', 3), d1], [('plain', 0, False)])
    add([d0, ('devmajor', 3), d1], [('plain', None, False)])
    add([d0, ('hotfix', 4), d1], [('plain', 4, False), ('plain', 4, True)])
    # several hotfix releases of one line, discovered in any order (`git tag` lists x.y.z.10 before x.y.z.2)
    add([d0, ('hotfix', 4)], [('plain', 4, True), ('plain', 4, True), ('plain', 4, False)])
    add([('stab', 5), d0], [])
    add([d0, s0, ('stab2', 0)], [])
    add([d0, ('dev', 0)], [])
    if tier == 'thorough':
        add([d0, s0, d1, s1], [('plain', 0, False), ('plain', 1, False)])
        add([d0, d1, ('devmajor', 3), d2], [('plain', 1, False)])
        add([d0, s0, ('hotfix', 4), d1], [('plain', 4, True), ('plain', 0, False)])
        add([d0, ('devmajor', 3), ('devmajor', 6)], [('plain', None, False)])
        add([d0, s0, d1], [('plain', 0, True), ('hf_suffix', 0, False), ('short', 0, False)])
        add([d0, d1, d2, ('stab', 2)], [('v', 2, True)])
    return S


def make_world(struct):
    """Symbolic numbers + real branch objects.  Returns dict."""
    from bert_e.workflow.gitwaterflow import branches as B
    tint.reset()
    I = lambda n: TInt(z3.Int(n))                                # noqa
    ctx = Ctx.cur
    lines = {}
    objs = []
    cons = []

    def line(i):
        if i not in lines:
            lines[i] = (I('M%d' % i), I('m%d' % i))
            cons.extend([lines[i][0].t >= 0, lines[i][1].t >= 0])
        return lines[i]
    repo = FakeRepo()
    for n, (kind, li) in enumerate(struct['branches']):
        M, m = line(li)
        if kind == 'dev':
            b = B.DevelopmentBranch(repo, 'development/%d.%d' % (90 + n, n))
            b.major, b.minor = M, m
            spec = dict(kind='dev', M=M.t, m=m.t, u=None)
        elif kind == 'devmajor':
            b = B.DevelopmentBranch(repo, 'development/%d' % (90 + n))
            b.major = M
            assert b.minor is None
            spec = dict(kind='dev', M=M.t, m=None, u=None)
        elif kind in ('stab', 'stab2'):
            u = I('u%d_%d' % (li, n))
            cons.append(u.t >= 0)
            b = B.StabilizationBranch(repo, 'stabilization/%d.%d.%d' % (90 + n, n, n))
            b.major, b.minor, b.micro = M, m, u
            spec = dict(kind='stab', M=M.t, m=m.t, u=u.t)
        elif kind == 'hotfix':
            u = I('h%d_%d' % (li, n))
            cons.append(u.t >= 0)
            b = B.HotfixBranch(repo, 'hotfix/%d.%d.%d' % (90 + n, n, n))
            b.major, b.minor, b.micro = M, m, u
            spec = dict(kind='hotfix', M=M.t, m=m.t, u=u.t)
        spec['obj'] = b
        spec['name'] = b.name
        objs.append(spec)
    tags = []
    for n, (form, li, four) in enumerate(struct['tags']):
        if li is None:
            tM, tm = I('tM%d' % n), I('tm%d' % n)
            cons.extend([tM.t >= 0, tm.t >= 0])
        else:
            tM, tm = line(li)
        tu = I('tu%d' % n)
        tq = I('tq%d' % n)
        cons.extend([tu.t >= 0, tq.t >= 0])
        core = '%d.%d.%d' % (tM, tm, tu)
        if four:
            core += '.%d' % tq
        text = {'plain': core, 'v': 'v' + core, 'rc': core + '-rc1',
                'hf_suffix': core + '_hf7', 'short': '%d.%d' % (tM, tm)}[form]
        tags.append(dict(text=text, valid=form in ('plain', 'v'), M=tM.t, m=tm.t, u=tu.t,
                         q=tq.t if four else None))
    ctx.assume(z3.And(*cons))
    return dict(objs=objs, tags=tags)


# -- oracle helpers (the statement) ------------------------------------------------------
def key_lt(a, b):
    """development ordering: (x, y) lexicographic, development/x after every x.*"""
    if a['m'] is None and b['m'] is None:
        return a['M'] < b['M']
    if a['m'] is None:
        return a['M'] < b['M']
    if b['m'] is None:
        return a['M'] <= b['M']
    return z3.Or(a['M'] < b['M'], z3.And(a['M'] == b['M'], a['m'] < b['m']))


def same_line(a, b):
    if (a['m'] is None) != (b['m'] is None):
        return z3.BoolVal(False)
    if a['m'] is None:
        return a['M'] == b['M']
    return z3.And(a['M'] == b['M'], a['m'] == b['m'])


def zmax(terms, default):
    out = default
    for cond, t in terms:
        out = z3.If(z3.And(cond, t > out), t, out)
    return out


def run_cascade(struct, order, dst_i, world):
    """Real code.  Returns ('ok', names, versions, ignored) or ('raise', class name)."""
    from bert_e.workflow.gitwaterflow import branches as B
    from bert_e import exceptions as ex
    objs = world['objs']
    dst = objs[dst_i]['obj']
    c = B.BranchCascade()
    try:
        for i in order:
            c.add_branch(objs[i]['obj'], dst)
        for t in world['tags']:
            c.update_versions(t['text'])
        c._update_major_versions()
        c.finalize(dst)
    except (ex.UnsupportedMultipleStabBranches, ex.DeprecatedStabilizationBranch,
            ex.DevBranchDoesNotExist, ex.NotASingleDevBranch) as e:
        return ('raise', type(e).__name__)
    names = [b.name for b in c.dst_branches]
    versions = [tint.decode(s) for s in c.target_versions]
    return ('ok', names, versions, sorted(c.ignored_branches), c)


def expectations(world, dst_i):
    """Formulas of the statement for this structure and destination."""
    objs, tags = world['objs'], world['tags']
    dst = objs[dst_i]
    devs = [o for o in objs if o['kind'] == 'dev']
    stabs = [o for o in objs if o['kind'] == 'stab']
    hot = [o for o in objs if o['kind'] == 'hotfix']
    vt = [t for t in tags if t['valid']]
    in_casc = devs + stabs + ([dst] if dst['kind'] == 'hotfix' else [])
    # -- rejections
    dup = []
    for a, b in itertools.combinations(in_casc, 2):
        if a['kind'] == b['kind']:
            dup.append(same_line(a, b))
    dup = z3.Or(*dup) if dup else z3.BoolVal(False)
    deprecated = []
    for s in stabs:
        for t in vt:
            deprecated.append(z3.And(t['M'] == s['M'], t['m'] == s['m'], t['u'] >= s['u']))
        if dst['kind'] == 'hotfix':
            deprecated.append(z3.And(same_line(dst, s), dst['u'] == s['u'],
                                     z3.Or(*[z3.And(t['M'] == dst['M'], t['m'] == dst['m'])
                                             for t in vt] + [z3.BoolVal(False)])))
    deprecated = z3.Or(*deprecated) if deprecated else z3.BoolVal(False)
    nodev = []
    for s in stabs:
        has_dev = z3.Or(*[same_line(s, d) for d in devs if d['m'] is not None] + [z3.BoolVal(False)])
        has_hot = same_line(s, dst) if dst['kind'] == 'hotfix' else z3.BoolVal(False)
        nodev.append(z3.And(z3.Not(has_dev), z3.Not(has_hot)))
    if dst['kind'] == 'hotfix':
        pass
    nodev = z3.Or(*nodev) if nodev else z3.BoolVal(False)
    if not devs and dst['kind'] != 'hotfix':
        nodev = z3.BoolVal(True)

    # -- tag derived numbers
    def last_micro(line):
        return zmax([(z3.And(t['M'] == line['M'], t['m'] == line['m']), t['u']) for t in vt],
                    z3.IntVal(-1))

    def has_stab(line):
        return z3.Or(*[same_line(s, line) for s in stabs] + [z3.BoolVal(False)])

    def latest_minor(d):
        cands = [(o['M'] == d['M'], o['m']) for o in devs + stabs if o['m'] is not None]
        cands += [(t['M'] == d['M'], t['m']) for t in vt]
        return zmax(cands, z3.IntVal(-1))

    def version_of(o, stab_targeted_on_line):
        if o['kind'] == 'stab':
            return [o['M'], o['m'], o['u']]
        if o['kind'] == 'hotfix':
            n = zmax([(z3.And(t['M'] == o['M'], t['m'] == o['m'], t['u'] == o['u']),
                       (t['q'] if t['q'] is not None else z3.IntVal(0)) + 1) for t in vt],
                     z3.IntVal(-1))
            return [o['M'], o['m'], o['u'], n]
        if o['m'] is None:
            return [o['M'], latest_minor(o) + 1, z3.IntVal(0)]
        return [o['M'], o['m'], last_micro(o) + z3.If(has_stab(o), 2, 1)]

    def targeted(o):
        if dst['kind'] == 'hotfix':
            return z3.BoolVal(o is dst)
        if o['kind'] == 'hotfix':
            return z3.BoolVal(False)
        if o['kind'] == 'stab':
            return z3.BoolVal(o is dst)
        if dst['kind'] == 'dev':
            return z3.Or(z3.BoolVal(o is dst), key_lt(dst, o))
        line = dict(M=dst['M'], m=dst['m'])
        return z3.Or(same_line(o, line), key_lt(line, o))

    def ignored(o):
        if o['kind'] == 'hotfix':
            return z3.BoolVal(False)
        return z3.Not(targeted(o))
    return dict(dup=dup, deprecated=deprecated, nodev=nodev, targeted=targeted, ignored=ignored,
                version_of=version_of, has_stab=has_stab)


def make_harness(cfg, twin=False):
    struct, order, dst_i = cfg

    def h(ctx):
        world = make_world(struct)
        objs = world['objs']
        dst = objs[dst_i]
        E = expectations(world, dst_i)
        if dst['kind'] == 'hotfix':
            # a hotfix branch is cut from its release tag x.y.z(.0)
            ctx.assume(z3.Or(*[z3.And(t['M'] == dst['M'], t['m'] == dst['m'], t['u'] == dst['u'])
                               for t in world['tags'] if t['valid']] + [z3.BoolVal(False)]))
        res = run_cascade(struct, order, dst_i, world)
        conds = []
        if res[0] == 'raise':
            cls = res[1]
            exp = {'UnsupportedMultipleStabBranches': E['dup'],
                   'DeprecatedStabilizationBranch': z3.And(z3.Not(E['dup']), E['deprecated']),
                   'DevBranchDoesNotExist': z3.And(z3.Not(E['dup']), z3.Not(E['deprecated']), E['nodev']),
                   'NotASingleDevBranch': z3.And(z3.Not(E['dup']), z3.Not(E['deprecated']), E['nodev'])}[cls]
            conds.append(('rejection %s' % cls, exp))
            out = 'raise:' + cls
        else:
            _, names, versions, ign, casc = res
            out = 'ok'
            conds.append(('accepted although ill-formed',
                          z3.Not(z3.Or(E['dup'], E['deprecated'], E['nodev']))))
            byname = {o['name']: o for o in objs}
            for o in objs:
                conds.append(('target set: %s' % o['kind'], z3.BoolVal(o['name'] in names) == E['targeted'](o)))
                if o['kind'] != 'hotfix':
                    conds.append(('ignored set: %s' % o['kind'], z3.BoolVal(o['name'] in ign) == E['ignored'](o)))
            tl = [byname[n] for n in names]
            if len(set(names)) != len(names):
                conds.append(('duplicate target', z3.BoolVal(False)))
            for a, b in zip(tl, tl[1:]):
                if a['kind'] == 'stab':
                    conds.append(('order: stabilization first', same_line(
                        dict(M=a['M'], m=a['m']), b)))
                else:
                    conds.append(('order of targets', key_lt(a, b)))
            if dst['kind'] == 'stab' and tl and tl[0] is not dst:
                conds.append(('order: destination first', z3.BoolVal(False)))
            # versions: one per targeted release line
            expv = []
            stab_line = dst if dst['kind'] == 'stab' else None
            for o in tl:
                if stab_line is not None and o['kind'] == 'dev' and o['m'] is not None:
                    # the development branch of a targeted stabilization adds nothing
                    pass
                expv.append(o)
            want = []
            for o in tl:
                if (stab_line is not None and o['kind'] == 'dev' and o['m'] is not None
                        and ctx.decide(same_line(o, dict(M=stab_line['M'], m=stab_line['m'])))):
                    continue
                want.append(E['version_of'](o, None))
            if len(want) != len(versions):
                conds.append(('number of fix versions', z3.BoolVal(False)))
            else:
                for wv, gv in zip(want, versions):
                    if len(wv) != len(gv):
                        conds.append(('fix version shape', z3.BoolVal(False)))
                    else:
                        conds.append(('fix version', z3.And(*[a == b for a, b in zip(wv, gv)])))
            if dst['kind'] == 'hotfix' and versions:
                # the version string of the hotfix destination (from which the q/, q/w/ and w/ names
                # are derived) is the target version
                nv = tint.decode(str(dst['obj'].version))
                conds.append(('hotfix: the version used for robot branch names is not the target version',
                              z3.And(*[a == b for a, b in zip(nv, versions[0])]) if len(nv) == len(versions[0])
                              else z3.BoolVal(False)))
        if twin:
            conds.append(('twin', z3.BoolVal(out != 'ok')))
        ctx.stats.obligations += len(conds)
        allv = {}
        for o in objs:
            for k in ('M', 'm', 'u'):
                if o[k] is not None:
                    allv['%s.%s' % (o['name'], k)] = o[k]
        for n, t in enumerate(world['tags']):
            for k in ('M', 'm', 'u', 'q'):
                if t[k] is not None:
                    allv['tag%d.%s' % (n, k)] = t[k]
        for label, c in conds:
            r, m = ctx.sat_model(z3.Not(c))
            if r == 'sat':
                return dict(out=out, label=label, bad={k: model_value(m, t) for k, t in allv.items()},
                            wit=None)
        r2, m2 = ctx.sat_model()
        return dict(out=out, label=None, bad=None,
                    wit={k: model_value(m2, t) for k, t in allv.items()})
    return h


# -- concrete replay: real branch names, real build() -----------------------------------
def concrete_names(struct, vals):
    """Concrete branch / tag names for a model."""
    names = []
    for n, (kind, li) in enumerate(struct['branches']):
        pn = {'dev': 'development/%d.%d' % (90 + n, n), 'devmajor': 'development/%d' % (90 + n),
              'stab': 'stabilization/%d.%d.%d' % (90 + n, n, n),
              'stab2': 'stabilization/%d.%d.%d' % (90 + n, n, n),
              'hotfix': 'hotfix/%d.%d.%d' % (90 + n, n, n)}[kind]
        g = lambda k: vals.get('%s.%s' % (pn, k))               # noqa
        if kind == 'dev':
            names.append('development/%d.%d' % (g('M'), g('m')))
        elif kind == 'devmajor':
            names.append('development/%d' % g('M'))
        elif kind in ('stab', 'stab2'):
            names.append('stabilization/%d.%d.%d' % (g('M'), g('m'), g('u')))
        else:
            names.append('hotfix/%d.%d.%d' % (g('M'), g('m'), g('u')))
    tags = []
    for n, (form, li, four) in enumerate(struct['tags']):
        g = lambda k: vals['tag%d.%s' % (n, k)]                  # noqa
        core = '%d.%d.%d' % (g('M'), g('m'), g('u'))
        if four:
            core += '.%d' % g('q')
        tags.append({'plain': core, 'v': 'v' + core, 'rc': core + '-rc1',
                     'hf_suffix': core + '_hf7', 'short': '%d.%d' % (g('M'), g('m'))}[form])
    return names, tags


def concrete_run(struct, order, dst_i, vals):
    """Unshadowed real code on concrete names; returns comparable outcome."""
    from bert_e.workflow.gitwaterflow import branches as B
    from bert_e import exceptions as ex
    names, tags = concrete_names(struct, vals)
    repo = FakeRepo()
    objs = []
    for nme in names:
        objs.append(B.branch_factory(repo, nme))
    dst = objs[dst_i]
    c = B.BranchCascade()
    try:
        for i in order:
            c.add_branch(objs[i], dst)
        for t in tags:
            c.update_versions(t)
        c._update_major_versions()
        c.finalize(dst)
    except (ex.UnsupportedMultipleStabBranches, ex.DeprecatedStabilizationBranch,
            ex.DevBranchDoesNotExist, ex.NotASingleDevBranch) as e:
        return ('raise', type(e).__name__)
    res = ('ok', [b.name for b in c.dst_branches], list(c.target_versions),
           sorted(c.ignored_branches))
    if type(dst).__name__ == 'HotfixBranch':
        res += (str(dst.version),)
    return res


def concrete_oracle(struct, dst_i, vals):
    """Statement evaluated on concrete numbers (plain Python, independent code)."""
    names, tags = concrete_names(struct, vals)
    import re
    br = []
    for nme in names:
        k, v = nme.split('/')
        parts = [int(x) for x in v.split('.')]
        br.append(dict(name=nme, kind={'development': 'dev', 'stabilization': 'stab', 'hotfix': 'hotfix'}[k],
                       M=parts[0], m=parts[1] if len(parts) > 1 else None,
                       u=parts[2] if len(parts) > 2 else None))
    dst = br[dst_i]
    vt = []
    for t in tags:
        mm = re.fullmatch(r'v?(\d+)\.(\d+)\.(\d+)(?:\.(\d+))?', t)
        if mm:
            vt.append(tuple(int(x) if x is not None else None for x in mm.groups()))
    devs = [b for b in br if b['kind'] == 'dev']
    stabs = [b for b in br if b['kind'] == 'stab']
    casc = devs + stabs + ([dst] if dst['kind'] == 'hotfix' else [])
    for a, b in itertools.combinations(casc, 2):
        if a['kind'] == b['kind'] and (a['M'], a['m']) == (b['M'], b['m']):
            return ('raise', {'UnsupportedMultipleStabBranches'})
    for s in stabs:
        if any((t[0], t[1]) == (s['M'], s['m']) and t[2] >= s['u'] for t in vt):
            return ('raise', {'DeprecatedStabilizationBranch'})
        if dst['kind'] == 'hotfix' and (dst['M'], dst['m'], dst['u']) == (s['M'], s['m'], s['u']) \
                and any((t[0], t[1]) == (dst['M'], dst['m']) for t in vt):
            return ('raise', {'DeprecatedStabilizationBranch'})
    for s in stabs:
        if not any((d['M'], d['m']) == (s['M'], s['m']) for d in devs) and not (
                dst['kind'] == 'hotfix' and (dst['M'], dst['m']) == (s['M'], s['m'])):
            return ('raise', {'DevBranchDoesNotExist', 'NotASingleDevBranch'})
    if not devs and dst['kind'] != 'hotfix':
        return ('raise', {'DevBranchDoesNotExist', 'NotASingleDevBranch'})
    key = lambda b: (b['M'], 1 if b['m'] is None else 0, b['m'] or 0)        # noqa

    def micro(b):
        return max([t[2] for t in vt if (t[0], t[1]) == (b['M'], b['m'])] + [-1])

    def ver(b):
        if b['kind'] == 'stab':
            return '%d.%d.%d' % (b['M'], b['m'], b['u'])
        if b['kind'] == 'hotfix':
            n = max([(t[3] or 0) + 1 for t in vt if t[:3] == (b['M'], b['m'], b['u'])] + [-1])
            return '%d.%d.%d.%d' % (b['M'], b['m'], b['u'], n)
        if b['m'] is None:
            lm = max([o['m'] for o in devs + stabs if o['m'] is not None and o['M'] == b['M']] +
                     [t[1] for t in vt if t[0] == b['M']] + [-1])
            return '%d.%d.0' % (b['M'], lm + 1)
        off = 2 if any((s['M'], s['m']) == (b['M'], b['m']) for s in stabs) else 1
        return '%d.%d.%d' % (b['M'], b['m'], micro(b) + off)
    if dst['kind'] == 'hotfix':
        tl = [dst]
    elif dst['kind'] == 'dev':
        tl = sorted([d for d in devs if key(d) >= key(dst)], key=key)
    else:
        line = (dst['M'], 0, dst['m'])
        tl = [dst] + sorted([d for d in devs if key(d) >= line], key=key)
    versions = []
    for b in tl:
        if dst['kind'] == 'stab' and b['kind'] == 'dev' and (b['M'], b['m']) == (dst['M'], dst['m']):
            continue
        versions.append(ver(b))
    ignored = sorted(b['name'] for b in devs + stabs if b not in tl)
    res = ('ok', [b['name'] for b in tl], versions, ignored)
    if dst['kind'] == 'hotfix':
        res += (versions[0],)
    return res


def replay(data):
    common.install_common_stubs()
    if 'history' in data:
        from . import histcheck
        return histcheck.replay('C09', data)
    from bert_e.workflow.gitwaterflow import branches as B
    common.silence(B)
    if data.get('kind') == 'lemma':
        return True
    struct = data['struct']
    struct = dict(branches=[tuple(b) for b in struct['branches']],
                  tags=[tuple(t) for t in struct['tags']])
    got = concrete_run(struct, data['order'], data['dst'], data['vals'])
    exp = concrete_oracle(struct, data['dst'], data['vals'])
    if exp[0] == 'raise':
        return not (got[0] == 'raise' and got[1] in exp[1])
    return tuple(got) != tuple(exp)


def _run(cfg):
    from bert_e.workflow.gitwaterflow import branches as B
    B.int = tint.sym_int
    try:
        results, st = explore(make_harness(cfg), max_paths=200000, max_depth=800)
    finally:
        B.__dict__.pop('int', None)
    return cfg, results, st.as_dict()


def tag_language(rep):
    import ast
    import inspect
    from bert_e.workflow.gitwaterflow import branches as B
    q = R.Q()
    src = inspect.getsource(B.BranchCascade.update_versions)
    tree = ast.parse('class _X:\n' + src if src.startswith('    ') else src)
    pat = None
    for node in ast.walk(tree):
        if isinstance(node, ast.Assign) and getattr(node.targets[0], 'id', '') == 'pattern':
            pat = ast.literal_eval(node.value)
    if pat is None:
        rep.error('update_versions: tag pattern not found')
        return
    D = z3.Plus(z3.Range('0', '9'))
    dot = z3.Re('.')
    spec = z3.Concat(z3.Option(z3.Re('v')), D, dot, D, dot, D, z3.Option(z3.Concat(dot, D)))
    ok, w = q.equal(R.lang(pat), spec, 'tag language == v?N.N.N(.N)?')
    rep.transitions += 2
    rep.queries += q.n
    if not ok:
        rep.cexs.append(Cex('C09', 'tag language differs from v?N.N.N(.N)?', dict(kind='lemma', w=w),
                            True, 'witness tag %r' % w))
    for bad in ('5.1.4-rc1', '5.1.4_hf7', 'v5.1', '5.1', '5.1.4.', 'x5.1.4', '5.1.4.2.1'):
        import re
        if re.match(pat, bad):
            rep.cexs.append(Cex('C09', 'suffixed / malformed tag accepted', dict(kind='lemma', w=bad),
                                True, 'tag %r accepted' % bad))
    rep.add_part('tag language (rx2z3)', queries=q.n)


def crosshair_lemmas(rep):
    """Ordering lemmas on compare_branches / compare_queues, unbounded ints."""
    here = os.path.dirname(os.path.dirname(os.path.abspath(__file__)))
    f = os.path.join(here, 'crosshair', 'c09_order.py')
    py = os.path.join(here, '.venv', 'bin', 'python')
    timeout = 20 if rep.tier == 'quick' else 60
    env = dict(os.environ, PYTHONPATH=here)
    p = subprocess.run([py, '-m', 'crosshair', 'check', '--report_all',
                        '--per_condition_timeout', str(timeout), f],
                       stdout=subprocess.PIPE, stderr=subprocess.STDOUT, text=True, env=env,
                       timeout=timeout * 12 + 120)
    confirmed = refuted = unknown = 0
    for line in p.stdout.splitlines():
        if 'Confirmed over all paths' in line:
            confirmed += 1
        elif 'error:' in line or 'false when calling' in line:
            refuted += 1
            rep.cexs.append(Cex('C09', 'ordering lemma refuted by CrossHair',
                                dict(kind='lemma', line=line), True, line.strip()[-300:]))
        elif 'Not confirmed' in line or 'Unable to meet' in line:
            unknown += 1
    rep.add_part('ordering lemmas (CrossHair)', confirmed=confirmed, refuted=refuted,
                 inconclusive=unknown)
    rep.obligations += confirmed
    if confirmed == 0 and refuted == 0:
        rep.error('CrossHair produced no verdict: %s' % p.stdout[-400:])
    if unknown:
        rep.extra['crosshair_inconclusive'] = unknown


def check(rep):
    rep.stubs += common.install_common_stubs()
    from bert_e.workflow.gitwaterflow import branches as B
    common.silence(B)
    rep.stubs += ['branches.int -> maps a rendered tagged integer back to its term',
                  'repository -> every ancestry test succeeds (validate() is not the subject)']
    rep.functions_encoded += ['branches.BranchCascade.add_branch/update_versions/'
                              '_update_major_versions/finalize/_set_target_versions/get_merge_paths',
                              'branches.compare_branches (through cmp_to_key / sorted)',
                              'branches.DevelopmentBranch/StabilizationBranch/HotfixBranch __eq__']
    rep.bounds = dict(version_numbers='unbounded integers >= 0 (symbolic)',
                      branches_per_structure='2..4', tags='0..3',
                      insertion_orders='all (quick: 2 per structure)')
    rep.assumptions += ['a hotfix destination has its release tag x.y.z(.0) in the repository',
                        'ignored_branches is compared as a set']
    rep.outside_claim += ['BranchCascade.build (listing of branches / tags from git)',
                          'validate(): VersionMismatch / self-containment checks']
    cfgs = []
    for s in structures(rep.tier):
        n = len(s['branches'])
        orders = list(itertools.permutations(range(n)))
        if rep.tier == 'quick':
            orders = [orders[0], orders[-1]]
        for order in orders:
            for d in range(n):
                cfgs.append((s, list(order), d))
    outs = common.pmap(_run, cfgs)
    outcomes = set()
    seen = set()
    nw = 0
    for cfg, results, st in outs:
        rep.add_stats(st)
        wits = []
        for _, r in results:
            outcomes.add(r['out'])
            if r['bad'] is not None:
                sig = 'cascade: %s (%s)' % (r['label'], r['out'])
                if sig in seen:
                    continue
                seen.add(sig)
                data = dict(struct=dict(branches=cfg[0]['branches'], tags=cfg[0]['tags']),
                            order=cfg[1], dst=cfg[2], vals=r['bad'])
                ok = replay(data)
                names, tags = concrete_names(cfg[0], r['bad'])
                rep.cexs.append(Cex('C09', sig, data, ok,
                                    'branches %s tags %s destination %s' % (names, tags, names[cfg[2]])))
            elif r['wit']:
                wits.append(r['wit'])
        for i in common.sample_indices(len(wits), 3, rep.seed):
            got = concrete_run(cfg[0], cfg[1], cfg[2], wits[i])
            exp = concrete_oracle(cfg[0], cfg[2], wits[i])
            bad = (not (got[0] == 'raise' and got[1] in exp[1])) if exp[0] == 'raise' \
                else tuple(got) != tuple(exp)
            if bad:
                names, tags = concrete_names(cfg[0], wits[i])
                rep.error('witness replay mismatch: %s tags %s dst %s: real %s oracle %s'
                          % (names, tags, names[cfg[2]], got, exp))
                break
            rep.validated += 1
            if nw < 2:
                names, tags = concrete_names(cfg[0], wits[i])
                rep.sample(dict(branches=names, tags=tags, destination=names[cfg[2]], result=got))
                nw += 1
    rep.add_part('configurations', count=len(cfgs))
    need = {'ok', 'raise:UnsupportedMultipleStabBranches', 'raise:DeprecatedStabilizationBranch',
            'raise:DevBranchDoesNotExist'}
    if not need <= outcomes:
        rep.error('vacuity: outcomes reached %s' % sorted(outcomes))
    B.int = tint.sym_int
    try:
        tw, st = explore(make_harness((structures('quick')[0], [0, 1], 0), twin=True))
    finally:
        B.__dict__.pop('int', None)
    if not any(r['bad'] is not None for _, r in tw):
        rep.error('reachability twin not refuted')
    tag_language(rep)
    crosshair_lemmas(rep)
    # the cascade inside complete jobs: tags are read from the clone, which comes from the mirror cache
    from . import histcheck
    histcheck.check(rep, 'C09')

