"""Per-author settings as a source of bypasses (shared by C04, C06, C07, C11).

The property statements name three sources of a bypass: an admin comment, the
per-author settings and the command line.  The unit checks take the per-author
table `settings.pr_author_options` as a symbolic input; this part checks the real
loader that produces that table (`settings.PrAuthorsOptions.deserialize`, reached
from `setup_settings`) and the real accessors that read it
(`PullRequestJob.author_bypass`, `utils.bypass_*`):

  for every configuration file listing several authors with arbitrary grant
  lists, an author is granted exactly the bypasses written in *his own* list;
  an author who is not listed is granted none; an unknown bypass name is
  refused.

Symbolic: every entry of every author's list (one of the live BYPASS_LIST names
or an unknown word), and which of the listed / unlisted authors opened the pull
request.  Every path's witness is replayed through the real `setup_settings` on
a YAML file.
"""
import os
import tempfile
import types
import z3

from symx.core import SEnum, SBool, explore, model_value, HarnessError
from symx.report import Cex
from . import common

USERS = [('release-bot', 1), ('contributor', 1), ('third', 0)]
BOGUS = 'bypass_everything'


def _domain():
    from bert_e.settings import PrAuthorsOptions
    return list(PrAuthorsOptions.BYPASS_LIST) + [BOGUS]


def run_loader(value):
    from bert_e.settings import PrAuthorsOptions
    from bert_e.exceptions import IncorrectSettingsFile
    try:
        return 'ok', PrAuthorsOptions().deserialize(value)
    except IncorrectSettingsFile:
        return 'refused', None


def accessors(res, author, keys, slot):
    """The real accessors on a job whose author is `author`."""
    from bert_e.job import PullRequestJob
    from bert_e.lib.settings_dict import SettingsDict
    from bert_e.workflow.gitwaterflow import utils as U
    job = PullRequestJob.__new__(PullRequestJob)
    job.settings = SettingsDict({k: slot for k in keys}, dict(pr_author_options=res))
    job.pull_request = types.SimpleNamespace(author=author, id=1)
    out = {}
    for k in keys:
        fn = getattr(U, k, None)
        if fn is not None:
            out[k] = fn(job)
        else:
            out[k] = job.author_bypass.get(k, False)
    return out, job.author_bypass


def make_harness(keys, twin=False):
    dom = _domain()

    def h(ctx):
        elems = {}
        value = {}
        for u, n in USERS:
            value[u] = []
            for i in range(n):
                e = SEnum.fresh(ctx, 'grant_%s_%d' % (u, i), dom)
                elems[(u, i)] = e
                value[u].append(e)
        author_i = ctx.choose('author', len(USERS) + 1)
        author = USERS[author_i][0] if author_i < len(USERS) else 'somebody-else'
        out, res = run_loader(value)
        bogus = z3.Or(*[e.t == dom.index(BOGUS) for e in elems.values()])
        conds = []
        if out == 'refused':
            conds.append(('refused although every name is a known bypass', bogus))
        else:
            conds.append(('accepted an unknown bypass name', z3.Not(bogus)))
            for u, n in USERS:
                for k in dom[:-1]:
                    want = z3.Or(*[elems[(u, i)].t == dom.index(k) for i in range(n)])
                    got = res[u][k]
                    got = got.t if isinstance(got, SBool) else z3.BoolVal(bool(got))
                    conds.append(('%s of %s differs from his own list' % (k, u), got == want))
            acc, table = accessors(res, author, keys, False)
            for k in keys:
                if author_i < len(USERS):
                    want = z3.Or(*[elems[(author, i)].t == dom.index(k) for i in range(USERS[author_i][1])])
                else:
                    want = z3.BoolVal(False)
                got = acc[k]
                got = got.t if isinstance(got, SBool) else z3.BoolVal(bool(got))
                if twin:
                    want = z3.BoolVal(False)
                conds.append(('%s granted to %s although not in his own list (or the reverse)'
                              % (k, 'a listed author' if author_i < len(USERS) else 'an unlisted author'),
                              got == want))
        bad = None
        ctx.stats.obligations += len(conds)
        r, m = ctx.sat_model(z3.Not(z3.And(*[c for _, c in conds])))
        if r == 'sat':
            for label, c in conds:
                if z3.is_false(m.eval(c, model_completion=True)):
                    bad = (label, m)
                    break
            else:
                raise HarnessError('authoropts: model without a falsified clause')
        r, m = ctx.sat_model() if bad is None else ('sat', bad[1])
        lists = {u: [dom[model_value(m, elems[(u, i)].t)] for i in range(n)] for u, n in USERS}
        return dict(out=out, bad=bad[0] if bad else None, lists=lists, author=author)
    return h


def concrete(lists, author, keys):
    """The real pipeline on a YAML settings file: setup_settings -> job accessors."""
    from bert_e.settings import setup_settings
    from bert_e.exceptions import IncorrectSettingsFile
    d = tempfile.mkdtemp(prefix='authoropts-')
    path = os.path.join(d, 'settings.yml')
    with open(path, 'w') as f:
        f.write('repository_owner: o\nrepository_slug: s\nrepository_host: mock\n'
                'robot: robot\nrobot_email: r@x\npull_request_base_url: http://x/{pr_id}\n'
                'commit_base_url: http://x/{commit_id}\nbuild_key: pre-merge\n'
                'required_peer_approvals: 1\nrequired_leader_approvals: 0\nadmins: [admin]\n')
        f.write('pr_author_options:\n')
        for u, l in lists.items():
            f.write('  %s:\n' % u)
            for e in l:
                f.write('    - %s\n' % e)
    try:
        try:
            settings = setup_settings(path)
        except IncorrectSettingsFile:
            return 'refused', None
        finally:
            import shutil
            shutil.rmtree(d, ignore_errors=True)
    except Exception as e:          # noqa
        return 'error %r' % e, None
    table = settings['pr_author_options']
    acc, _ = accessors(table, author, keys, False)
    return 'ok', ({k: bool(v) for k, v in acc.items()},
                  {u: sorted(k for k, v in table.get(u, {}).items() if v) for u, _n in USERS})


def expected(lists, author, keys):
    if any(e == BOGUS for l in lists.values() for e in l):
        return 'refused', None
    return 'ok', ({k: k in lists.get(author, []) for k in keys},
                  {u: sorted(set(lists.get(u, []))) for u, _n in USERS})


def _explore(arg):
    keys, twin = arg
    results, st = explore(make_harness(keys, twin), max_depth=400)
    return results, st.as_dict()


def check(rep, prop, keys):
    import bert_e.settings as S
    common.silence(S)
    part = 'per-author settings loader'
    rep.functions_encoded += ['settings.PrAuthorsOptions.deserialize', 'job.PullRequestJob.author_bypass',
                              'settings.setup_settings (witness replays on a YAML file)'] + \
                             ['gitwaterflow.utils.%s' % k for k in keys]
    rep.bounds[part] = dict(listed_authors=[u for u, _ in USERS], entries_per_author=[n for _, n in USERS],
                            names='live BYPASS_LIST + one unknown word',
                            pull_request_author='each listed author or an unlisted one')
    (results, st), (tres, tst) = common.pmap(_explore, [(keys, False), (keys, True)])
    rep.add_stats(st, part)
    if not any(r['bad'] for _, r in tres):
        rep.error('reachability twin of the per-author settings check not refuted')
    seen = set(r['out'] for _, r in results)
    if seen != {'ok', 'refused'}:
        rep.error('vacuity: per-author loader outcomes %s' % sorted(seen))
    done = set()
    nval = 0
    for _, r in results:
        if r['bad']:
            if r['bad'] in done:
                continue
            done.add(r['bad'])
            got = concrete(r['lists'], r['author'], keys)
            ok = got != expected(r['lists'], r['author'], keys)
            rep.cexs.append(Cex(prop, 'per-author settings: an author is granted a bypass that is not in his '
                                'own list (or refused one that is)',
                                dict(kind='authoropts', lists=r['lists'], author=r['author'], keys=list(keys)),
                                ok, '%s with pr_author_options=%r, author=%s' % (r['bad'], r['lists'], r['author'])))
    wits = [r for _, r in results if not r['bad']]
    for i in common.sample_indices(len(wits), 60, rep.seed):
        r = wits[i]
        if concrete(r['lists'], r['author'], keys) != expected(r['lists'], r['author'], keys):
            rep.error('witness replay mismatch in the per-author settings check: %r %s' % (r['lists'], r['author']))
            break
        nval += 1
    rep.validated += nval
    if wits:
        rep.sample(dict(kind='per-author settings witness', pr_author_options=wits[0]['lists'],
                        author=wits[0]['author']))


def replay(data):
    return concrete(data['lists'], data['author'], data['keys']) != \
        expected(data['lists'], data['author'], data['keys'])
