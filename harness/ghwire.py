"""api.github.com behind the real HTTP stack (shared by C16 and C17).

The other GitHub parts replace `AggregatedStatus.get`, the client's `session` or
`BertESession` itself by stubs, so the code between the adapter objects and the socket - the
schema loaders, `AbstractGitHostObject.get/list/create` (and their shared default arguments),
`Client._get` with its conditional-request cache, `BertESession.request` with its retry loop
and its log lines, and requests' own header merging - was outside every check.  Here nothing
of Bert-E is replaced: a `requests` transport adapter is mounted on the real `BertESession`
of a real `github.Client`, and stands for the host:

  * resources are JSON documents kept per path(+query); their representation is rendered on
    every request from the current host state;
  * validators: a content-derived weak ETag (what api.github.com sends), or a Last-Modified
    date that changes with every change of the resource, or none; a conditional request
    whose validator matches the *current* representation of the *requested* resource is
    answered 304 without a body, as RFC 7232 prescribes;
  * a fault plan decides per exchange: answer / transport error (connection, read timeout) /
    an HTTP error status;
  * every exchange is recorded (method, url, request headers as sent on the wire).
"""
import hashlib
import json
from urllib.parse import urlsplit, parse_qsl

import requests
from requests.adapters import BaseAdapter
from requests.structures import CaseInsensitiveDict

OWNER, REPO = 'o', 'r'
USER = {'id': 7, 'login': 'bot', 'type': 'Bot'}
REPO_DOC = {'name': REPO, 'owner': {'id': 1, 'login': OWNER}, 'full_name': '%s/%s' % (OWNER, REPO),
            'description': None, 'private': True, 'default_branch': 'development/1.0'}

TO_GH_STATE = {'INPROGRESS': 'pending', 'SUCCESSFUL': 'success', 'FAILED': 'failure', 'STOPPED': 'error'}


def run_doc(sha, conclusion, status='completed', wid=1, branch='w/1.0/feature/a', event='push', rid=None):
    return {'id': rid or (100 + wid), 'head_sha': sha, 'head_branch': branch, 'status': status,
            'conclusion': conclusion, 'check_suite_id': 5, 'html_url': 'https://github.com/o/r/actions/runs/1',
            'event': event, 'repository': REPO_DOC, 'workflow_id': wid}


class Wire(BaseAdapter):
    def __init__(self, validators='etag', fault=None):
        super().__init__()
        self.validators = validators        # 'etag' | 'date' | 'none'
        self.fault = fault or (lambda k, req: None)
        self.statuses = {}                  # sha -> {context: github state}
        self.runs = {}                      # sha -> [run documents]
        self.comments = []                  # of pull request 1
        self.exchanges = []                 # (method, url, headers, outcome)
        self.version = {}                   # path -> (body, counter): Last-Modified changes with the body
        self.token = 'ghs_S3CR3TTOKENxyz'
        self.known_404 = set()              # commits the host does not know

    # ------------------------------------------------------------------ host state
    def document(self, method, path, query, body):
        parts = path.strip('/').split('/')
        if method == 'POST' and parts[:2] == ['app', 'installations'] and parts[-1] == 'access_tokens':
            return 201, {'token': self.token, 'expires_at': '2030-01-01T00:00:00Z'}
        if parts == ['user']:
            return 200, USER
        if parts[:3] != ['repos', OWNER, REPO]:
            return 404, {'message': 'Not Found'}
        rest = parts[3:]
        if not rest:
            return 200, REPO_DOC
        if rest[0] == 'commits' and len(rest) == 3 and rest[2] == 'status':
            sha = rest[1]
            if sha in self.known_404:
                return 404, {'message': 'Not Found'}
            sts = self.statuses.get(sha, {})
            return 200, {'state': 'pending', 'sha': sha, 'repository': REPO_DOC, 'total_count': len(sts),
                         'statuses': [{'state': st, 'target_url': 'https://ci.example/%s/%s' % (ctx, sha),
                                       'description': 'build', 'context': ctx}
                                      for ctx, st in sorted(sts.items())]}
        if rest == ['actions', 'runs']:
            sha = query.get('head_sha')
            runs = self.runs.get(sha, [])
            return 200, {'total_count': len(runs), 'workflow_runs': runs}
        if rest[:2] == ['pulls', '1'] and len(rest) == 2:
            return 200, {'number': 1, 'state': 'open', 'title': 't', 'body': None, 'user': USER,
                         'comments_url': 'https://api.github.com/repos/o/r/issues/1/comments',
                         'head': {'ref': 'feature/a', 'sha': 'a' * 40}, 'base': {'ref': 'development/1.0',
                                                                                  'sha': 'b' * 40, 'repo': REPO_DOC}}
        if rest == ['issues', '1', 'comments']:
            if method == 'POST':
                doc = {'id': 1000 + len(self.comments), 'body': json.loads(body or '{}').get('body', ''), 'user': USER}
                self.comments.append(doc)
                return 201, doc
            return 200, list(self.comments)
        if rest[:1] == ['statuses'] and method == 'POST':
            d = json.loads(body or '{}')
            self.statuses.setdefault(rest[1], {})[d['context']] = d['state']
            return 201, d
        return 404, {'message': 'Not Found'}

    # ------------------------------------------------------------------ transport
    def send(self, request, stream=False, timeout=None, verify=True, cert=None, proxies=None):
        k = len(self.exchanges)
        sent = {str(a): str(b) for a, b in request.headers.items()}
        f = self.fault(k, request)
        if f == 'connect':
            self.exchanges.append((request.method, request.url, sent, 'connection error'))
            raise requests.ConnectionError('HTTPSConnectionPool(host=\'api.github.com\', port=443): Max retries '
                                           'exceeded with url: %s' % request.path_url, request=request)
        if f == 'timeout':
            self.exchanges.append((request.method, request.url, sent, 'read timeout'))
            raise requests.ReadTimeout('HTTPSConnectionPool(host=\'api.github.com\', port=443): Read timed out.',
                                       request=request)
        u = urlsplit(request.url)
        query = dict(parse_qsl(u.query))
        body = request.body.decode() if isinstance(request.body, bytes) else request.body
        if isinstance(f, int):
            code, doc = f, {'message': 'error %d' % f}
        else:
            code, doc = self.document(request.method, u.path, query, body)
        text = json.dumps(doc, sort_keys=True)
        headers = CaseInsensitiveDict({'Content-Type': 'application/json; charset=utf-8'})
        if code == 200 and request.method == 'GET':
            key = u.path + '?' + u.query
            old = self.version.get(key)
            if old is None or old[0] != text:
                old = self.version[key] = (text, (old[1] + 1) if old else 1)
            etag = 'W/"%s"' % hashlib.md5(text.encode()).hexdigest()
            date = 'Mon, 05 Oct 2026 07:%02d:00 GMT' % old[1]
            if self.validators == 'etag':
                headers['ETag'] = etag
                if sent.get('If-None-Match') == etag:
                    code, text = 304, ''
            elif self.validators == 'date':
                headers['Last-Modified'] = date
                if sent.get('If-Modified-Since') == date:
                    code, text = 304, ''
        resp = requests.Response()
        resp.status_code = code
        resp._content = text.encode()
        resp.headers = headers
        resp.encoding = 'utf-8'
        resp.url = request.url
        resp.request = request
        resp.reason = {200: 'OK', 201: 'Created', 304: 'Not Modified', 404: 'Not Found'}.get(code, 'Error')
        self.exchanges.append((request.method, request.url, sent, code))
        return resp

    def close(self):
        pass


def connect(client, wire):
    """Mount the host on the real session of a real client."""
    client.session.mount('https://', wire)
    client.session.mount('http://', wire)
    return client


# ---------------------------------------------------------------------------
_SNAP = None


def reset_process_state():
    """Every history starts in a fresh process: put back the module-level state of the host
    adapters (mutable default arguments of their functions - `AbstractGitHostObject.get(...,
    params={}, headers={})` are written to by the GitHub client -, the installation-token
    cache, the build status cache)."""
    global _SNAP
    import copy
    import inspect
    from bert_e.git_host import base, github, bitbucket, cache
    if _SNAP is None:
        _SNAP = []
        seen = set()
        for mod in (base, github, bitbucket):
            objs = [mod] + [c for c in vars(mod).values() if inspect.isclass(c) and c.__module__ == mod.__name__]
            for o in objs:
                for f in vars(o).values():
                    f = getattr(f, '__func__', f)
                    f = getattr(f, '__wrapped__', f)
                    if not inspect.isfunction(f) or id(f) in seen:
                        continue
                    seen.add(id(f))
                    for d in list(f.__defaults__ or ()) + list((f.__kwdefaults__ or {}).values()):
                        if isinstance(d, (dict, list, set)):
                            _SNAP.append((d, copy.deepcopy(d)))
    for live, saved in _SNAP:
        live.clear()
        if isinstance(live, list):
            live.extend(copy.deepcopy(saved))
        else:
            live.update(copy.deepcopy(saved))
    try:
        github.Client._get_installation_token.cache_clear()
    except AttributeError:
        pass
    cache.BUILD_STATUS_CACHE.clear()
