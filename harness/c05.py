"""C05 - a queue evaluation merges the longest all-green prefix, in order.

The queue is built by the real add_to_queue (one call per PR, in entry order)
on a symgit repository with a concrete commit graph; the statuses of all queue
commits are symbolic.  Then the real handle_merge_queues runs and the refs it
leaves on the remote are compared, for every status assignment on the path,
with the oracle written from the statement.
"""
import itertools
import types
import z3

from symx.core import explore, model_value, HarnessError, PathAbort
from symx.report import Cex
import symgit
from symgit import SymRepo
from . import common, gitflow as GF
from .gitflow import PR

OK = symgit.STATUSES.index('SUCCESSFUL')

# destination universe of a structure: (name, parents in the concrete graph)
BASE = {
    'plain': ['development/4.3', 'development/5.1', 'development/10.0'],
    'stab': ['development/4.3', 'stabilization/5.1.4', 'development/5.1', 'development/10.0'],
    'hotfix': ['hotfix/4.2.17', 'development/4.3', 'development/5.1', 'development/10.0'],
    'major': ['development/4.3', 'development/5.1', 'development/5', 'development/10.0'],
    'stab+hotfix': ['hotfix/4.2.17', 'development/4.3', 'stabilization/5.1.4', 'development/5.1',
                    'development/10.0'],
}
TAGS = {'hotfix/4.2.17': ['4.2.17.0'], 'stabilization/5.1.4': ['5.1.3']}


def qver(shape, t):
    """Version string used in queue branch names for target t."""
    k = GF.parse_dest(t)
    if k[0] == 'hotfix':
        return GF.version_of(t) + '.1'      # tag x.y.z.0 exists -> next hfrev is 1
    return GF.version_of(t)


def qw(p, shape, t):
    return 'q/w/%d/%s/%s' % (p.id, qver(shape, t), p.src)


def graph(shape, prs):
    """Concrete graph: destinations chained by inclusion, every PR branched
    from its destination, integration branches merged down the cascade.
    Returns (refs, idx, closure masks by atom, tags)."""
    refs = list(shape)
    for p in prs:
        refs.append(p.src)
        for t in GF.targets(shape, p.dst)[1:]:
            refs.append(GF.w_name(p, t))
    idx = {r: i + 1 for i, r in enumerate(refs)}
    clo = {}

    def setc(r, parents):
        m = 1 | (1 << idx[r])
        for q in parents:
            m |= clo[q]
        clo[r] = m
    devs = GF.ordered_devs(shape)
    prev = None
    for d in devs:
        par = [prev] if prev else []
        k = GF.parse_dest(d)
        s = 'stabilization/%d.%s.' % (k[1], k[2])
        for x in shape:
            if x.startswith(s):
                setc(x, [])
                par.append(x)
        setc(d, par)
        prev = d
    for d in shape:
        if d not in clo:
            setc(d, [])
    for p in prs:
        setc(p.src, [p.dst])
        prevw = p.src
        for t in GF.targets(shape, p.dst)[1:]:
            w = GF.w_name(p, t)
            setc(w, [prevw, t])
            prevw = w
    anc = [1] + [clo[r] for r in refs]
    tags = []
    for d in shape:
        tags += TAGS.get(d, [])
    return refs, idx, anc, tags


def build_world(ctx, shape, prs):
    refs, idx, anc, tags = graph(shape, prs)
    n = len(refs) + 1           # atom 0: initial commit
    nfresh = 4 * sum(len(GF.targets(shape, p.dst)) for p in prs) + 4
    repo = SymRepo(ctx, refs, n, nfresh, tags=tags)
    repo.no_conflicts = True
    for i, m in enumerate(anc):
        repo.concrete_closure(i, m)
    for r in refs:
        repo.tip[r] = z3.IntVal(idx[r])
    repo.tracking = dict(repo.tip)
    repo.remote = dict(repo.tip)
    repo.pre_remote = dict(repo.tip)
    for t in tags:
        # tags sit on the initial commit (their position is irrelevant here)
        repo.tags[t] = z3.IntVal(0)
        repo.remote_tags[t] = z3.IntVal(0)
    return repo


def queue_pr(repo, host, shape, p, no_octopus):
    """Real add_to_queue for PR p (the handler has built cascade + w branches)."""
    from bert_e.workflow.gitwaterflow import branches as B, queueing as Q
    from bert_e.job import PullRequestJob
    from bert_e import exceptions as ex
    berte = GF.make_berte(repo, host, no_octopus=no_octopus)
    from bert_e.workflow.git_utils import clone_git_repo
    job = PullRequestJob(bert_e=berte, pull_request=host.get_pull_request(p.id))
    repo.reset()
    clone_git_repo(job)
    job.git.cascade = B.BranchCascade()
    job.git.src_branch = B.branch_factory(repo, p.src)
    job.git.dst_branch = B.branch_factory(repo, p.dst)
    B.build_branch_cascade(job)
    dsts = job.git.cascade.dst_branches
    exp = GF.targets(shape, p.dst)
    if [d.name for d in dsts] != exp:
        raise HarnessError('cascade targets %s != %s' % ([d.name for d in dsts], exp))
    wbs = []
    for k, t in enumerate(dsts):
        if k == 0:
            w = B.GhostIntegrationBranch(repo, p.src, dsts[0])
        else:
            w = B.branch_factory(repo, GF.w_name(p, exp[k]))
        w.dst_branch = t
        wbs.append(w)
    Q.add_to_queue(job, wbs)


def oracle(repo, shape, prs, tips, force):
    """Expected selection size per independent queue, from the statement.
    Returns list of (queue PR list, [green(k) for k in 0..n])."""
    out = []
    hot = [d for d in shape if GF.parse_dest(d)[0] == 'hotfix']
    groups = [[p for p in prs if p.dst not in hot]]
    for h in hot:
        groups.append([p for p in prs if p.dst == h])
    for g in groups:
        greens = []
        for k in range(len(g) + 1):
            conds = []
            vers = []
            for p in g[:k]:
                for t in GF.targets(shape, p.dst):
                    if t not in vers:
                        vers.append(t)
            for t in vers:
                last = [p for p in g[:k] if t in GF.targets(shape, p.dst)][-1]
                conds.append(repo.status_of(tips[qw(last, shape, t)]) == OK)
            greens.append(z3.BoolVal(True) if force else
                          (z3.And(*conds) if conds else z3.BoolVal(True)))
        out.append((g, greens))
    return out


def expected_state(shape, groups_k, tips, pre):
    """Expected destination tips given the selected prefix length per queue."""
    exp = {d: pre[d] for d in shape}
    merged = []
    for g, k in groups_k:
        merged += [p.id for p in g[:k]]
        for t in shape:
            sel = [p for p in g[:k] if t in GF.targets(shape, p.dst)]
            if sel:
                exp[t] = tips[qw(sel[-1], shape, t)]
    return exp, merged


def make_harness(cfg):
    shape = BASE[cfg['struct']]
    prs = [PR(i + 1, 'bugfix/p%d' % (i + 1), d) for i, d in enumerate(cfg['dests'])]
    force = cfg.get('force', False)
    no_oct = cfg.get('no_octopus', True)

    def h(ctx):
        repo = build_world(ctx, shape, prs)
        ctx.assume(symgit.status_domain(repo, repo.N + repo.M))
        repo.log_cut = True
        host = GF.Host(repo, prs, ctx)
        try:
            for p in prs:
                queue_pr(repo, host, shape, p, no_oct)
        except Exception as e:                      # concrete graph: never conflicts
            raise HarnessError('queue construction failed: %r' % (e,))
        tips = {r: t for r, t in repo.remote.items() if r.startswith('q/w/')}
        want = [qw(p, shape, t) for p in prs for t in GF.targets(shape, p.dst)]
        if sorted(tips) != sorted(want):
            raise HarnessError('queue branches %s != expected %s' % (sorted(tips), sorted(want)))
        pre = dict(repo.remote)
        nops = len(repo.remote_ops)
        out = GF.run_merge_queues(repo, host, force)
        if out == 'IncoherentQueues':
            raise HarnessError('a queue built by add_to_queue was found incoherent')
        merged_ids = sorted(set(k for (kind, k) in
                                [(o[0], o[1]) for o in host.ops] if kind == 'comment'))
        moved = {d: repo.remote[d] for d in shape}
        groups = oracle(repo, shape, prs, tips, force)
        # which prefix lengths explain the observed state?
        bad_terms = []
        sel_terms = []
        for g, greens in groups:
            n = len(g)
            # K = max k with green(k)
            kterms = []
            for k in range(n + 1):
                isK = z3.And(greens[k], *[z3.Not(x) for x in greens[k + 1:]])
                kterms.append(isK)
            sel_terms.append((g, kterms))
        # enumerate combinations of K per queue; the observed state must equal
        # the expected one under the (unique) combination that holds
        conds = []
        for combo in itertools.product(*[range(len(g) + 1) for g, _ in sel_terms]):
            prem = z3.And(*[kt[k] for (g, kt), k in zip(sel_terms, combo)])
            exp, merged = expected_state(shape, [(g, k) for (g, _), k in zip(sel_terms, combo)],
                                         tips, pre)
            same = z3.And(*[moved[d] == exp[d] for d in shape])
            conds.append(z3.Implies(prem, same))
        ctx.stats.obligations += 1
        r, m = ctx.sat_model(z3.Not(z3.And(*conds)))
        res = dict(out=out, bad=None, wit=None)
        st_terms = {name: repo.status_of(t) for name, t in tips.items()}
        if r == 'sat':
            res['bad'] = dict(
                status={n: symgit.STATUSES[model_value(m, t)] for n, t in st_terms.items()},
                moved={d: (str(z3.simplify(moved[d])) != str(z3.simplify(pre[d]))) for d in shape},
                landed={d: [n for n, t in tips.items() if z3.is_true(z3.simplify(t == moved[d]))]
                        for d in shape})
        if cfg.get('c03') and not force:
            # C03 on the same run: a destination that moved now sits on a commit whose build is SUCCESSFUL
            c3 = [z3.Implies(moved[d] != pre[d], repo.status_of(moved[d]) == OK) for d in shape]
            ctx.stats.obligations += 1
            r3, m3 = ctx.sat_model(z3.Not(z3.And(*c3)))
            if r3 == 'sat':
                # one counterexample per kind of destination (the signature must not depend on which
                # model the solver happens to return)
                res['c03_bad'] = []
                for kind in ('development', 'stabilization', 'hotfix'):
                    ds = [d for d in shape if d.split('/')[0] == kind]
                    if not ds:
                        continue
                    rk, mk = ctx.sat_model(z3.Or(*[z3.And(moved[d] != pre[d], repo.status_of(moved[d]) != OK)
                                                   for d in ds]))
                    if rk != 'sat':
                        continue
                    red = [d for d in ds if z3.is_true(mk.eval(z3.And(moved[d] != pre[d],
                                                                      repo.status_of(moved[d]) != OK),
                                                               model_completion=True))]
                    res['c03_bad'].append(dict(
                        kind=kind,
                        status={n: symgit.STATUSES[model_value(mk, t)] for n, t in st_terms.items()},
                        moved={d: (str(z3.simplify(moved[d])) != str(z3.simplify(pre[d]))) for d in shape},
                        landed={d: [n for n, t in tips.items() if z3.is_true(z3.simplify(t == moved[d]))]
                                for d in shape}, red=red))
        if r != 'sat':
            r2, m2 = ctx.sat_model()
            res['wit'] = dict(
                status={n: symgit.STATUSES[model_value(m2, t)] for n, t in st_terms.items()},
                landed={d: [n for n, t in tips.items() if z3.is_true(z3.simplify(t == moved[d]))]
                        for d in shape}, out=out)
        return res
    return h


# -- concrete replay on a real repository (upstream scenario helpers) ------------------------
def real_run(cfg, status):
    """Same scenario on a real repository (/usr/bin/git): build the graph, queue
    the PRs with the real add_to_queue, set the statuses, run the real
    handle_merge_queues; returns {dest: dict(moved, landed q/w names)}."""
    from symgit.realgit import RealWorld, RealHost
    common.install_common_stubs()
    GF.silence_all()
    shape = BASE[cfg['struct']]
    prs = [PR(i + 1, 'bugfix/p%d' % (i + 1), d) for i, d in enumerate(cfg['dests'])]
    refs, idx, anc, tags = graph(shape, prs)
    world = RealWorld(anc, {r: idx[r] for r in refs}, {t: 0 for t in tags})
    try:
        host = RealHost(world, {}, prs)
        repo = world.repository()
        try:
            for p in prs:
                queue_pr(repo, host, shape, p, cfg.get('no_octopus', True))
            heads = world.heads()
            for name, st in status.items():
                host.status[heads[name]] = st
            before = dict(heads)
            repo.reset()
            out = GF.run_merge_queues(repo, host, cfg.get('force', False))
        finally:
            try:
                repo.delete()
            except Exception:
                pass
        after = world.heads()
        result = {'_out': out}
        for d in shape:
            result[d] = dict(moved=after[d] != before[d],
                             landed=sorted(n for n, s in before.items()
                                           if n.startswith('q/w/') and s == after[d]))
        return result
    finally:
        world.cleanup()


def concrete_expected(cfg, status):
    """Evaluate the statement's oracle concretely."""
    shape = BASE[cfg['struct']]
    prs = [PR(i + 1, 'bugfix/p%d' % (i + 1), d) for i, d in enumerate(cfg['dests'])]
    hot = [d for d in shape if GF.parse_dest(d)[0] == 'hotfix']
    groups = [[p for p in prs if p.dst not in hot]] + [[p for p in prs if p.dst == h] for h in hot]
    exp = {d: [] for d in shape}
    for g in groups:
        K = 0
        for k in range(len(g) + 1):
            ok = True
            for t in shape:
                sel = [p for p in g[:k] if t in GF.targets(shape, p.dst)]
                if sel and status[qw(sel[-1], shape, t)] != 'SUCCESSFUL' and not cfg.get('force'):
                    ok = False
            if ok:
                K = k
        for t in shape:
            sel = [p for p in g[:K] if t in GF.targets(shape, p.dst)]
            if sel:
                exp[t] = [qw(sel[-1], shape, t)]
    return exp


def replay(data):
    cfg, status = data['cfg'], data['status']
    exp = concrete_expected(cfg, status)
    got = real_run(cfg, status)
    shape = BASE[cfg['struct']]
    for d in shape:
        if exp[d]:
            if exp[d][0] not in got[d]['landed']:
                return True
        elif got[d]['moved']:
            return True
    return False


def signature(cfg, bad):
    """Shape of a disagreement: queue structure + which queue commits are not
    green (status class only)."""
    notgreen = sorted(n.split('/bugfix/')[0] for n, s in bad['status'].items() if s != 'SUCCESSFUL')
    return 'queue %s dests=%s not-green=%s' % (cfg['struct'], ','.join(
        d.split('/')[0][:4] + d.split('/')[1] for d in cfg['dests']), ','.join(notgreen))


def family(cfg, bad):
    """Kind of deviation from the statement (used to match known findings):
    what the code selected, relative to the queue, and why it is wrong."""
    shape = BASE[cfg['struct']]
    prs = [PR(i + 1, 'bugfix/p%d' % (i + 1), d) for i, d in enumerate(cfg['dests'])]
    status = bad['status']
    hot = [d for d in shape if GF.parse_dest(d)[0] == 'hotfix']
    main = [p for p in prs if p.dst not in hot]
    # which prefix of the main queue explains what landed?
    landed = {d: (l[0] if l else None) for d, l in bad['landed'].items()}
    explained = None
    for k in range(len(main) + 1):
        ok = True
        for t in shape:
            if t in hot:
                continue
            sel = [p for p in main[:k] if t in GF.targets(shape, p.dst)]
            want = qw(sel[-1], shape, t) if sel else None
            got = landed[t] if bad['moved'][t] else None
            if want != got:
                ok = False
        if ok:
            explained = k
            break
    if explained is None:
        return 'selection is not a prefix of the queue (%s, destinations %s)' % (
            cfg['struct'], ','.join(cfg['dests']))

    def green(k):
        for t in shape:
            sel = [p for p in main[:k] if t in GF.targets(shape, p.dst)]
            if sel and status[qw(sel[-1], shape, t)] != 'SUCCESSFUL':
                return False
        return True
    if not green(explained):
        stab_prs = any(GF.parse_dest(p.dst)[0] == 'stab' for p in main)
        older_dev = any(GF.parse_dest(p.dst)[0] == 'dev' and any(
            GF.parse_dest(q.dst)[0] == 'stab' and GF.dev_key(p.dst) < (GF.parse_dest(q.dst)[1], 0, GF.parse_dest(q.dst)[2])
            for q in main) for p in main)
        if stab_prs and older_dev and len(main) >= 3:
            return ('selected prefix is not all-green: queue with PRs on a stabilization branch and on '
                    'an older development branch (two merge paths), shortest-list rule of _process')
        return 'selected prefix is not all-green (%s, destinations %s)' % (
            cfg['struct'], ','.join(cfg['dests']))
    return 'selected prefix is green but not the longest (%s, destinations %s)' % (
        cfg['struct'], ','.join(cfg['dests']))


def configs(tier, seed=0):
    import random
    out = []
    for struct in ('plain', 'stab', 'hotfix', 'major', 'stab+hotfix'):
        shape = BASE[struct]
        for n in (1, 2, 3):
            for dests in itertools.product(shape, repeat=n):
                if tier == 'quick' and n == 3:
                    # quick tier: 3-PR queues only where merge paths differ
                    if struct != 'stab' or 'stabilization/5.1.4' not in dests:
                        continue
                out.append(dict(struct=struct, dests=list(dests)))
    if tier == 'thorough':
        four = [list(d) for d in itertools.product(BASE['stab'], repeat=4)
                if 'stabilization/5.1.4' in d]
        random.Random(seed).shuffle(four)
        out += [dict(struct='stab', dests=d) for d in four[:48]]
    out.append(dict(struct='stab', dests=['stabilization/5.1.4', 'development/4.3'], force=True))
    out.append(dict(struct='hotfix', dests=['hotfix/4.2.17', 'development/4.3'], force=True))
    out.append(dict(struct='plain', dests=['development/4.3', 'development/5.1'], no_octopus=False))
    out.append(dict(struct='stab', dests=['stabilization/5.1.4', 'development/4.3'], no_octopus=False))
    return out


def _run(cfg):
    results, st = explore(make_harness(cfg), max_paths=100000)
    return cfg, results, st.as_dict()


def check(rep):
    rep.stubs += common.install_common_stubs()
    rep.stubs += GF.silence_all()
    rep.functions_encoded += [
        'queueing.add_to_queue/get_queue_branch/get_queue_integration_branch (queue construction)',
        'branches.BranchCascade.build/finalize (targets, hotfix revision from tags)',
        'queueing.handle_merge_queues/merge_queues/close_queued_pull_request',
        'branches.QueueCollection.build/finalize/validate/_process/_recursive_lookup/'
        '_extract_pr_ids/_remove_unmergeable/mergeable_prs/mergeable_queues/failed_prs',
        'branches.QueueIntegrationBranch.__lt__ (ordering by inclusion)']
    rep.bounds = dict(queued_prs='1..3 (quick: 3 only on the stabilization structure) / 1..4 (thorough: seeded sample of 48 four-PR queues)',
                      structures=BASE, statuses='5 values per queue commit, symbolic')
    rep.assumptions += ['concrete commit graph: every PR branches from its destination tip, '
                        'integration branches are merged down the cascade without conflict',
                        'hotfix queues are independent of the main queue (statement)']
    cfgs = configs(rep.tier, rep.seed)
    outs = common.pmap(_run, cfgs)
    bad_by_family = {}
    nwit = 0
    wits = []
    for cfg, results, st in outs:
        rep.add_stats(st)
        for _, r in results:
            if r['bad']:
                bad_by_family.setdefault(family(cfg, r['bad']), []).append((cfg, r['bad']))
            elif r['wit']:
                wits.append((cfg, r['wit']))
    rep.add_part('configurations', count=len(cfgs))
    if not any(r['out'] == 'Merged' for _, rs, _ in outs for _, r in rs):
        rep.error('vacuity: no merging path')
    # witness replay on a real repository for a sample of closed paths
    k = 6 if rep.tier == 'quick' else 40
    sel = [wits[i] for i in common.sample_indices(len(wits), k, rep.seed)]

    def val(item):
        cfg, w = item
        shape = BASE[cfg['struct']]
        got = real_run(cfg, w['status'])
        for d in shape:
            if sorted(w['landed'][d]) != got[d]['landed'] and (w['landed'][d] or got[d]['moved']):
                return 'dest %s: model landed=%s real=%s' % (d, w['landed'][d], got[d])
        return None
    for item, prob in zip(sel, common.pmap(val, sel, nproc=6)):
        if prob:
            rep.error('witness differs on real git: %s %s' % (item[0], prob))
        else:
            rep.validated += 1
    if sel:
        rep.sample(dict(config=sel[0][0], statuses=sel[0][1]['status'], landed=sel[0][1]['landed']))
    for fam, items in sorted(bad_by_family.items()):
        cfg, bad = items[0]
        data = dict(cfg=cfg, status=bad['status'])
        ok = replay(data)
        rep.cexs.append(Cex('C05', fam, data, ok,
                            '%s: statuses %s -> code moved %s' % (
                                signature(cfg, bad),
                                {k.split('/bugfix')[0]: v for k, v in bad['status'].items() if v != 'SUCCESSFUL'},
                                {d: l for d, l in bad['landed'].items() if bad['moved'][d]})))


# -- C03 on the queue structures (hotfix, stabilization, major branches) ----------------------
def c03_replay(data):
    """Real repository: does a destination end on a queue commit whose status is not SUCCESSFUL?"""
    cfg, status = data['cfg'], data['status']
    got = real_run(cfg, status)
    for d in BASE[cfg['struct']]:
        if got[d]['moved'] and not any(status.get(n) == 'SUCCESSFUL' for n in got[d]['landed']):
            return True
    return False


def _run_c03(cfg):
    results, st = explore(make_harness(dict(cfg, c03=True)), max_paths=100000)
    return cfg, results, st.as_dict()


def c03_part(rep):
    """The queues of c05 (built by the real add_to_queue on concrete graphs with hotfix,
    stabilization and x.y / x development branches, symbolic statuses), with C03's own clause:
    after the real handle_merge_queues every destination that moved sits on a commit whose
    build is SUCCESSFUL."""
    cfgs = [c for c in configs(rep.tier, rep.seed) if not c.get('force')]
    if rep.tier == 'quick':
        # hotfix queues, and the three-PR queues with a stabilization branch and an older development branch
        cfgs = [c for c in cfgs if (c['struct'] in ('hotfix', 'stab+hotfix') and len(c['dests']) <= 2) or
                (c['struct'] == 'stab' and len(c['dests']) == 3 and 'development/4.3' in c['dests'])]
    rep.functions_encoded += ['queue structures of C05 (real add_to_queue x n, real handle_merge_queues; hotfix, '
                              'stabilization and major development branches) under the C03 clause']
    rep.bounds['queue structures'] = dict(structures=BASE, queued_prs='1..3', configurations=len(cfgs))
    outs = common.pmap(_run_c03, cfgs)
    fams = {}
    moved_hot = False
    for cfg, results, st in outs:
        rep.add_stats(st, None)
        for _, r in results:
            if r.get('wit') and any(l and d.startswith('hotfix/') for d, l in r['wit']['landed'].items()):
                moved_hot = True
            for b in r.get('c03_bad') or []:
                try:
                    why = family(cfg, b)
                except Exception:
                    why = 'queue %s' % cfg['struct']
                fams.setdefault('queue merge advanced a %s branch to a commit whose build is not SUCCESSFUL [%s]' % (
                    b['kind'], why), (cfg, b))
    rep.add_part('queue structures under the C03 clause', configurations=len(cfgs))
    if not moved_hot:
        rep.error('vacuity: no hotfix destination advanced in the queue structures')
    for sig, (cfg, b) in sorted(fams.items()):
        data = dict(kind='c05-structures', cfg=cfg, status=b['status'])
        rep.cexs.append(Cex('C03', sig, data, c03_replay(data),
                            '%s: statuses %s -> %s advanced to %s' % (
                                signature(cfg, b), {k.split('/bugfix')[0]: v for k, v in b['status'].items()
                                                    if v != 'SUCCESSFUL'}, b['red'],
                                {d: b['landed'][d] for d in b['red']})))
