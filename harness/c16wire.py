"""C16 (6): git-host calls that fail, through the real HTTP stack.

Part (5) of c16.py drives the GitHub client with a scripted *session object*: what
`BertESession.request` itself logs, the retry loop, and everything requests does with the
per-request arguments were not executed.  Here the real clients (GitHub with a password,
GitHub as an App with a really signed JWT, Bitbucket with basic authentication) talk to the
host model of ghwire.py through their real `BertESession`, and a fault plan - position k of
the failing exchange, kind of failure - is chosen by the executor:

  transport: connection error / read timeout (requests exceptions carrying the request);
  HTTP: 401, 403, 404 once; 500 / 502 once (retried) or persistently (FlakyGitHost).

Every API call of a small job-like sequence runs under the fault plan; what a job would
publish is collected: all log records (DEBUG or INFO), stdout, the text / repr / traceback
chain of every exception, the comments and build statuses posted on the host.  None may
contain the password (raw, URL-quoted, or inside the basic-auth header value), the
installation token, or a JWT the client signed.
"""
import base64
import logging
import types
from urllib.parse import quote_plus, quote

from symx.core import explore
from symx.report import Cex
from . import common, ghwire as W
from .c16 import capture, exc_text

PASSWORD = 's3cr/t p+w'
FLOWS = ['github-password', 'github-app', 'bitbucket']
FAULTS = ['none', 'connect', 'timeout', 401, 403, 404, 500, 502, '500-persistent', '502-persistent', 429]
NCALLS = 9          # fault positions: more than the longest sequence issues (checked)
_PEM = None


def pem():
    global _PEM
    if _PEM is None:
        from cryptography.hazmat.primitives.asymmetric import rsa
        from cryptography.hazmat.primitives import serialization as ser
        key = rsa.generate_private_key(public_exponent=65537, key_size=2048)
        _PEM = key.private_bytes(ser.Encoding.PEM, ser.PrivateFormat.TraditionalOpenSSL,
                                 ser.NoEncryption()).decode()
    return _PEM


def secret_forms(password):
    basic = base64.b64encode(('bot:' + password).encode('latin1')).decode()
    return {'password': password, 'password (url-quoted)': quote_plus(password),
            'password (path-quoted)': quote(password), 'password (basic-auth header)': basic}


def run(flow, debug, fault_at, fault):
    from bert_e.git_host import github as gh, bitbucket as bb
    import bert_e.git_host.base as base
    W.reset_process_state()
    persistent = isinstance(fault, str) and fault.endswith('-persistent')
    code = int(fault.split('-')[0]) if persistent else fault

    def plan(k, req):
        if fault == 'none':
            return None
        if k == fault_at or (persistent and k > fault_at):
            return code
        return None
    secrets = dict(secret_forms(PASSWORD))
    jwts = []
    texts, issued = [], 0
    wire = (W.Wire('etag', plan) if flow != 'bitbucket' else __import__('harness.c17wire', fromlist=['x']).BBWire('none', plan))
    wire.statuses['a' * 40] = {'pre-merge': 'failure' if flow != 'bitbucket' else 'FAILED'}
    orig_session, orig_sleep, orig_jwt = base.BertESession, base.time.sleep, gh.Client._get_jwt

    def mk():
        s = orig_session()
        s.mount('https://', wire)
        return s

    def jwt(self):
        t = orig_jwt(self)
        jwts.append(t)
        return t
    base.time = types.SimpleNamespace(sleep=lambda s: None, time=__import__('time').time)
    gh.Client._get_jwt = jwt
    state = {}

    def step(fn):
        try:
            return fn()
        except Exception as e:                       # what a job would log / publish about the failure
            texts.append(exc_text(e))
            try:
                raise RuntimeError('job failed') from e
            except RuntimeError:
                logging.getLogger('bert_e.bert_e').exception('failed')
            return None
    with capture(logging.DEBUG if debug else logging.INFO) as (h, out):
        for name in ('bert_e.git_host.base', 'bert_e.git_host.bitbucket'):
            lg = logging.getLogger(name)
            lg.disabled, lg.propagate = False, True
            lg.setLevel(logging.NOTSET)
        try:
            if flow == 'bitbucket':
                def connect():
                    c = bb.Client('bot', PASSWORD, 'bot@x')
                    c.mount('https://', wire)
                    state['client'] = c
                    state['repo'] = c.get_repository('r', 'o')
                step(connect)
                if 'client' in state and 'repo' not in state:
                    step(lambda: state.__setitem__('repo', state['client'].get_repository('r', 'o')))
                if 'repo' in state:
                    step(lambda: state['repo'].get_build_status('a' * 40, 'pre-merge'))
                    step(lambda: state['repo'].get_build_status('b' * 40, 'pre-merge'))
                    step(lambda: state['repo'].get_build_url('a' * 40, 'pre-merge'))
            else:
                gh.base.BertESession = mk

                def connect():
                    if flow == 'github-app':
                        c = gh.Client('bot', 'unused', 'bot@x', app_id=1, installation_id=2, private_key=pem())
                    else:
                        c = gh.Client('bot', PASSWORD, 'bot@x')
                    state['client'] = c
                for attempt in range(2):             # a failed start-up is retried once, as a restart would
                    if 'client' not in state:
                        step(connect)
                if 'client' in state:
                    c = state['client']
                    step(lambda: state.__setitem__('repo', c.get_repository('r', 'o')))
                    if 'repo' not in state:
                        step(lambda: state.__setitem__('repo', c.get_repository('r', 'o')))
                if 'repo' in state:
                    r = state['repo']
                    step(lambda: r.get_build_status('a' * 40, 'pre-merge'))
                    step(lambda: state.__setitem__('pr', r.get_pull_request(1)))
                    if 'pr' in state:
                        step(lambda: state['pr'].add_comment('Hello, the build failed'))
                        step(lambda: list(state['pr'].get_comments()))
                    step(lambda: r.set_build_status('a' * 40, 'bert-e', 'FAILED', url='https://x', description='d'))
        finally:
            gh.base.BertESession = orig_session
            base.time = __import__('time')
            gh.Client._get_jwt = orig_jwt
    issued = len(wire.exchanges)
    secrets['installation token'] = wire.token
    for i, t in enumerate(dict.fromkeys(jwts)):
        secrets['signed JWT' if i == 0 else 'signed JWT (%d)' % (i + 1)] = t
    published = [c.get('body', '') for c in wire.comments] + [str(v) for v in wire.statuses.values()]
    leaks = []
    for name, sec in secrets.items():
        if flow != 'bitbucket' and name == 'password (basic-auth header)':
            continue
        if flow == 'github-app' and name.startswith('password'):
            continue
        if any(sec in line for line in h.lines):
            leaks.append('log record (%s)' % name)
        if sec in out.getvalue():
            leaks.append('stdout (%s)' % name)
        if any(sec in t for t in texts):
            leaks.append('exception text (%s)' % name)
        if any(sec in p for p in published):
            leaks.append('published on the host (%s)' % name)
    return leaks, issued, len(texts), [e[3] for e in wire.exchanges]


def harness(ctx):
    flow = FLOWS[ctx.choose('flow', len(FLOWS))]
    debug = ctx.choose('debug', 2) == 1
    fault = FAULTS[ctx.choose('fault', len(FAULTS))]
    fault_at = ctx.choose('fault_at', NCALLS) if fault != 'none' else 0
    leaks, issued, nerr, outcomes = run(flow, debug, fault_at, fault)
    ctx.stats.obligations += 1
    return dict(flow=flow, debug=debug, fault=fault, fault_at=fault_at, leaks=leaks, issued=issued, errors=nerr,
                outcomes=[str(o) for o in outcomes])


def part(rep):
    pem()
    W.reset_process_state()
    rep.functions_encoded += [
        'git_host.base.BertESession.request (log lines, retry loop, FlakyGitHost) over requests.Session with a '
        'mounted host adapter that fails', 'github.Client.__init__/headers/_get_jwt (real RS256 signature)/'
        '_get_installation_token/get/post/_get, Repository/PullRequest/Comment/Status calls on real JSON',
        'bitbucket.Client (HTTPBasicAuth), Repository.get_build_status/get_build_url on real JSON']
    rep.bounds['git-host call faults'] = dict(flows=FLOWS, faults=[str(f) for f in FAULTS],
                                              fault_positions='exchange 0..%d' % (NCALLS - 1),
                                              log_levels=['DEBUG', 'INFO'], password=PASSWORD)
    rep.stubs += ['time.sleep inside BertESession.request -> no-op (30 s naps between retries)']
    results, st = common.explore_parallel(harness, split_depth=3)
    rep.add_stats(st, 'git-host calls failing on the wire')
    for fl in FLOWS:
        mx = max(r['issued'] for _, r in results if r['flow'] == fl and r['fault'] == 'none')
        if mx > NCALLS:
            rep.error('wire faults: flow %s issues %d exchanges, more than the %d fault positions' % (fl, mx, NCALLS))
        kinds = set(o for _, r in results if r['flow'] == fl for o in r['outcomes'])
        if not {'connection error', 'read timeout', '500', '401'} <= kinds:
            rep.error('vacuity: wire faults reached for %s: %s' % (fl, sorted(kinds)))
        if not any(r['errors'] for _, r in results if r['flow'] == fl):
            rep.error('vacuity: no failing call for %s' % fl)
    seen = set()
    for _, r in results:
        if r['leaks']:
            sig = 'git-host call failing (%s, %s): secret in %s' % (r['flow'], r['fault'] if isinstance(r['fault'], str)
                                                                     else 'HTTP %s' % r['fault'],
                                                                     ', '.join(sorted(set(r['leaks']))))
            if sig in seen:
                continue
            seen.add(sig)
            data = dict(kind='wire', flow=r['flow'], debug=r['debug'], fault=r['fault'], fault_at=r['fault_at'])
            rep.cexs.append(Cex('C16', sig, data, replay(data), '%r' % {k: v for k, v in r.items() if k != 'outcomes'}))
        else:
            rep.validated += 1


def replay(data):
    return bool(run(data['flow'], data['debug'], data['fault_at'], data['fault'])[0])
