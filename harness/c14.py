"""C14 - HTTP entry points enqueue work only for authorised callers.

For every rule of the live Flask url_map (built by the real setup_server) the
REGISTERED view function - with whatever decorators as_blueprint / route
applied - is called inside a real request context in which the session values,
the configured webhook credentials and the configured repository identity are
symbolic proxies; pr ids are symbolic integers; branch names are solver-drawn
members / near-misses of the accepted grammar.  Oracle: a job is put in the task
queue iff the statement's conditions hold; otherwise the status is an error
status and the queue is unchanged; a created job carries the request's
validated parameters.
"""
import base64
import json
import os
import types
import z3

from symx.core import SBool, explore, model_value, HarnessError, Ctx
from symx.tint import TInt
from symx import tint
from symx.report import Cex
import rx2z3 as R
from . import common

ADMIN_ONLY = {'CreateBranch', 'DeleteBranch', 'ForceMergeQueues', 'DeleteQueues'}
JOB_ENDPOINTS = {'EvalPullRequest', 'CreateBranch', 'DeleteBranch', 'ForceMergeQueues',
                 'RebuildQueues', 'DeleteQueues'}
READ_ENDPOINTS = {'GetJob', 'ListJobs'}
FORMS = {'EvalPullRequestForm': 'EvalPullRequest', 'CreateBranchForm': 'CreateBranch',
         'DeleteBranchForm': 'DeleteBranch', 'ForceMergeQueuesForm': 'ForceMergeQueues',
         'RebuildQueuesForm': 'RebuildQueues', 'DeleteQueuesForm': 'DeleteQueues'}


class Flag:
    """Session value whose truthiness is symbolic."""

    def __init__(self, term, text='someuser'):
        self.term, self.text = term, text

    def __bool__(self):
        return Ctx.cur.decide(self.term) if z3.is_expr(self.term) else bool(self.term)

    def __str__(self):
        return self.text
    __repr__ = __str__


class SymStr:
    """A configured string of which only `== received` is observable."""

    def __init__(self, name, sym):
        self.name, self.sym, self.cache = name, sym, {}

    def _eq(self, other):
        if not self.sym:
            return self.name == other
        if not isinstance(other, str):
            return False                        # a configured value is a string
        other = str(other)
        if other not in self.cache:
            b = z3.Bool('%s==%s' % (self.name, other))
            for o in self.cache.values():       # it equals at most one string
                Ctx.cur.assume(z3.Not(z3.And(b, o)))
            self.cache[other] = b
        return SBool(self.cache[other])

    def __eq__(self, other):
        return self._eq(other)

    def __ne__(self, other):
        r = self._eq(other)
        return ~r if isinstance(r, SBool) else not r
    __req__ = __eq__

    def __hash__(self):
        return 0

    def __str__(self):
        return self.name


_APP = {}


def get_app():
    if 'app' in _APP:
        return _APP['app'], _APP['berte']
    os.environ.update(WEBHOOK_LOGIN='hooklogin', WEBHOOK_PWD='hookpwd',
                      BERT_E_CLIENT_ID='cid', BERT_E_CLIENT_SECRET='csecret')
    import bert_e.server as server
    from .c13 import make_berte
    from bert_e.lib.settings_dict import SettingsDict
    berte = make_berte()
    berte.settings = SettingsDict(dict(
        repository_host='github', repository_owner='owner', repository_slug='slug',
        build_key='pre-merge', pull_request_base_url='http://x/{pr_id}',
        commit_base_url='http://x/{commit_id}', admins=['admin'], organization='',
        backtrace=False, quiet=True, use_queue=True))
    berte.project_repo = types.SimpleNamespace(owner='owner', slug='slug', full_name='owner/slug')
    berte.client = types.SimpleNamespace(login='robot')
    app = server.setup_server(berte)
    app.config['TESTING'] = True
    _APP.update(app=app, berte=berte)
    return app, berte


def rules():
    app, _ = get_app()
    out = []
    for r in app.url_map.iter_rules():
        ep = r.endpoint
        name = ep.split('.')[0]
        for m in sorted(r.methods - {'HEAD', 'OPTIONS'}):
            out.append((ep, name, m, r.rule))
    return out


COLLIDING_BODY = {'branch': 'master', 'pr_id': -3, 'job_id': 'other'}
# keys that exist in the robot's configuration: a request must not be able to shadow them for
# the evaluation it triggers
CONFIG_BODY = {'admins': ['eve'], 'build_key': '', 'pr_author_options': {'eve': {'bypass_build_status': True}},
               'required_peer_approvals': 0}


def nested_evaluation(job):
    """Run the real handler of an EvalPullRequestJob; returns the PullRequestJob it hands to
    BertE.process (or None)."""
    from bert_e.jobs.eval_pull_request import evaluate_pull_request
    seen = []
    berte = job.bert_e
    saved = (berte.__dict__.get('process'), berte.project_repo)
    berte.process = lambda j: seen.append(j)
    berte.project_repo = types.SimpleNamespace(
        owner='owner', slug='slug', full_name='owner/slug',
        get_pull_request=lambda pid: types.SimpleNamespace(id=pid, author='contributor'))
    job.project_repo = berte.project_repo
    try:
        evaluate_pull_request(job)
    finally:
        if saved[0] is None:
            berte.__dict__.pop('process', None)
        else:
            berte.process = saved[0]
        berte.project_repo = saved[1]
    return seen[0] if seen else None


def nested_ok(job, body):
    """The pull-request job triggered by the API evaluation sees the robot's configuration,
    not values sent in the request."""
    n = nested_evaluation(job)
    if n is None or type(n).__name__ != 'PullRequestJob':
        return False
    if n.pull_request.id is not job.settings['pr_id'] and n.pull_request.id != job.settings['pr_id']:
        return False
    for k in (body or {}):
        if k in ('pr_id',):
            continue
        cfg = job.bert_e.settings.get(k, None)
        if n.settings.get(k, None) != cfg:
            return False
    return True


RAW_BODIES = {
    4: ('{"branch_from": "development/4.3",', 'application/json'),            # truncated JSON
    5: ('{"branch_from": "not a valid ref !!"}', 'text/plain'),                 # not declared as JSON
}


def call_api(ep, name, method, kwargs, body, v, sym, raw=None):
    """Call the registered view; returns (status, jobs put, job or None)."""
    import flask
    app, berte = get_app()
    berte.task_queue.queue.clear()
    rq = dict(data=raw[0], content_type=raw[1]) if raw else dict(json=body if body is not None else {})
    with app.test_request_context('/x', method=method, **rq):
        flask.session['user'] = Flag(v['user'], 'someuser') if sym else ('someuser' if v['user'] else None)
        flask.session['admin'] = Flag(v['admin'], 'True') if sym else bool(v['admin'])
        try:
            resp = app.view_functions[ep](**kwargs)
        except Exception as e:                  # werkzeug abort(404) etc.
            code = getattr(e, 'code', None)
            if code is None:
                raise
            resp = ('', code)
    status = resp.status_code if hasattr(resp, 'status_code') else resp[1]
    jobs = list(berte.task_queue.queue)
    berte.task_queue.queue.clear()
    return status, jobs


def api_harness(cfg, twin=False):
    ep, name, method, case = cfg

    def h(ctx):
        tint.reset()
        v = dict(user=z3.Bool('user'), admin=z3.Bool('admin'))
        kwargs, body, valid = {}, None, z3.BoolVal(True)
        if name == 'EvalPullRequest':
            pr = TInt(z3.Int('pr_id'))
            kwargs = dict(pr_id=pr)
            valid = pr.t >= 1
        elif name in ('CreateBranch', 'DeleteBranch'):
            kwargs = dict(branch=case['branch'])
            valid = z3.BoolVal(case['valid'])
            if name == 'CreateBranch' and case.get('branch_from') is not None:
                body = dict(branch_from=case['branch_from'])
        elif name == 'GetJob':
            kwargs = dict(job_id='nope')
        # the JSON body is not validated beyond `branch_from`: it may carry keys named like
        # the URL parameters (with other values) or unrelated keys
        extra = ctx.choose('body_extra', 6)
        raw = None
        if extra in RAW_BODIES:
            # a body that is not well-formed JSON / not declared as JSON: an ill-formed request
            raw = RAW_BODIES[extra]
            valid = z3.BoolVal(False)
            body = None
        elif extra:
            body = dict(body or {})
            body.update(COLLIDING_BODY if extra == 1 else CONFIG_BODY if extra == 3 else {'comment': 'please'})
        status, jobs = call_api(ep, name, method, kwargs, body, v, True, raw=raw)
        need_admin = name in ADMIN_ONLY
        allowed = z3.And(v['user'], z3.Or(z3.BoolVal(not need_admin), v['admin']))
        creates = name in JOB_ENDPOINTS
        conds = []
        if creates:
            conds.append(('job enqueued iff authorised and valid',
                          z3.BoolVal(len(jobs) == 1) == z3.And(allowed, valid)))
            conds.append(('at most one job', z3.BoolVal(len(jobs) <= 1)))
            conds.append(('refusal has an error status',
                          z3.Implies(z3.Not(z3.And(allowed, valid)),
                                     z3.BoolVal(status in (400, 401, 403, 404, 415, 500)))))
            conds.append(('401 iff not logged in', z3.BoolVal(status == 401) == z3.Not(v['user'])))
            if jobs:
                j = jobs[0]
                ok = type(j).__name__ == name + 'Job' if name != 'EvalPullRequest' \
                    else type(j).__name__ == 'EvalPullRequestJob'
                for k, val in kwargs.items():
                    ok = ok and (j.settings[k] is val)
                for k, val in (body or {}).items():
                    if k not in kwargs:
                        ok = ok and j.settings[k] == val
                ok = ok and str(j.user) == 'someuser'
                conds.append(('job carries the validated parameters', z3.BoolVal(bool(ok))))
                if name == 'EvalPullRequest':
                    conds.append(('the evaluation triggered by the API request runs with the robot\'s configuration',
                                  z3.BoolVal(bool(nested_ok(j, body)))))
        else:
            conds.append(('read endpoint enqueues nothing', z3.BoolVal(len(jobs) == 0)))
            conds.append(('read endpoint needs a session',
                          z3.BoolVal(status in (200, 404)) == v['user']))
        if twin:
            conds.append(('twin', z3.BoolVal(len(jobs) == 0)))
        ctx.stats.obligations += len(conds)
        for label, c in conds:
            r, m = ctx.sat_model(z3.Not(c))
            if r == 'sat':
                vals = dict(user=model_value(m, v['user']), admin=model_value(m, v['admin']))
                if name == 'EvalPullRequest':
                    vals['pr_id'] = model_value(m, kwargs['pr_id'].t)
                vals['body_extra'] = extra
                return dict(bad=vals, label=label, status=status, njobs=len(jobs))
        return dict(bad=None, label=None, status=status, njobs=len(jobs))
    return h


def api_concrete(ep, name, method, case, vals):
    kwargs, body, valid = {}, None, True
    if name == 'EvalPullRequest':
        kwargs = dict(pr_id=vals['pr_id'])
        valid = vals['pr_id'] >= 1
    elif name in ('CreateBranch', 'DeleteBranch'):
        kwargs = dict(branch=case['branch'])
        valid = case['valid']
        if name == 'CreateBranch' and case.get('branch_from') is not None:
            body = dict(branch_from=case['branch_from'])
    elif name == 'GetJob':
        kwargs = dict(job_id='nope')
    raw = None
    if vals.get('body_extra') in RAW_BODIES:
        raw = RAW_BODIES[vals['body_extra']]
        valid = False
        body = None
    elif vals.get('body_extra'):
        body = dict(body or {})
        body.update(COLLIDING_BODY if vals['body_extra'] == 1 else CONFIG_BODY if vals['body_extra'] == 3
                    else {'comment': 'please'})
    status, jobs = call_api(ep, name, method, kwargs, body, vals, False, raw=raw)
    allowed = bool(vals['user']) and (name not in ADMIN_ONLY or bool(vals['admin']))
    if name in JOB_ENDPOINTS:
        carried = all(j.settings[k] == val for j in jobs for k, val in kwargs.items())
        if name == 'EvalPullRequest' and jobs:
            carried = carried and nested_ok(jobs[0], body)
        return (len(jobs) == 1) != (allowed and valid) or not carried or \
            (not (allowed and valid) and status not in (400, 401, 403, 404, 415, 500))
    return len(jobs) != 0 or ((status in (200, 404)) != bool(vals['user']))


# -- webhooks ----------------------------------------------------------------------
BB_EVENTS = ['repo:commit_status_created', 'repo:commit_status_updated', 'repo:push',
             'pullrequest:updated', 'pullrequest:created', 'issue:created']
GH_EVENTS = ['pull_request', 'issue_comment', 'pull_request_review', 'status', 'check_suite',
             'push', 'ping']


REPO_SHAPES = ['full', 'absent', 'null', 'empty', 'no-identity']


def webhook_call(host, event, creds, v, sym, inprogress=False, sent=None, repo_shape='full'):
    import flask
    import bert_e.server.webhook as wh
    import bert_e.git_host.github as gh
    app, berte = get_app()
    berte.task_queue.queue.clear()
    berte.settings['repository_host'] = host
    owner = SymStr('configured_owner', sym) if sym else v['owner']
    slug = SymStr('configured_slug', sym) if sym else v['slug']
    full = SymStr('configured_full_name', sym) if sym else v['full_name']
    berte.project_repo = types.SimpleNamespace(owner=owner, slug=slug, full_name=full)
    saved_cfg = (app.config['WEBHOOK_LOGIN'], app.config['WEBHOOK_PWD'])
    if sym:
        app.config['WEBHOOK_LOGIN'] = SymStr('configured_login', True)
        app.config['WEBHOOK_PWD'] = SymStr('configured_pwd', True)
    else:
        app.config['WEBHOOK_LOGIN'] = v['login']
        app.config['WEBHOOK_PWD'] = v['pwd']
    headers = {}
    if sent is not None:
        headers['Authorization'] = 'Basic ' + base64.b64encode(('%s:%s' % sent).encode()).decode()
    elif creds:
        headers['Authorization'] = 'Basic ' + base64.b64encode(b'sent-login:sent-pwd').decode()
    state = 'INPROGRESS' if inprogress else 'SUCCESSFUL'
    if host == 'bitbucket':
        headers['X-Event-Key'] = event
        data = {'repository': {'owner': {'username': 'owner'}, 'name': 'slug'},
                'commit_status': {'state': state, 'key': 'pre-merge', 'url': 'u',
                                  'links': {'commit': {'href': 'http://x/c0ffee'}}},
                'pullrequest': {'id': 7}}
        path, fn = '/bitbucket', 'parse_bitbucket_webhook'
    else:
        headers['X-Github-Event'] = event
        data = {'repository': {'full_name': 'owner/slug'}}
        path, fn = '/github', 'parse_github_webhook'
    # what the delivery says about its repository: the identity, nothing, null, an empty object,
    # an object without the identity fields
    if repo_shape == 'absent':
        data.pop('repository')
    elif repo_shape == 'null':
        data['repository'] = None
    elif repo_shape == 'empty':
        data['repository'] = {}
    elif repo_shape == 'no-identity':
        data['repository'] = {'id': 1, 'private': True}
    pr = types.SimpleNamespace(id=7)
    st = types.SimpleNamespace(key='pre-merge', state=state)
    stubs = {
        (gh, 'PullRequestEvent'): lambda client=None, **kw: types.SimpleNamespace(pull_request=pr, action='opened'),
        (gh, 'IssueCommentEvent'): lambda client=None, **kw: types.SimpleNamespace(pull_request=pr),
        (gh, 'PullRequestReviewEvent'): lambda client=None, **kw: types.SimpleNamespace(pull_request=pr),
        (gh, 'StatusEvent'): lambda client=None, **kw: types.SimpleNamespace(status=st, commit='c0ffee'),
        (gh, 'CheckSuiteEvent'): lambda client=None, **kw: types.SimpleNamespace(status=st, commit='c0ffee'),
        (wh, 'BuildStatus'): lambda client, **kw: st,
        (wh, 'PullRequest'): lambda client, **kw: pr,
    }
    saved = {k: getattr(k[0], k[1]) for k in stubs}
    for (mod, n), f in stubs.items():
        setattr(mod, n, f)
    from bert_e.git_host import cache
    cache.BUILD_STATUS_CACHE.clear()
    try:
        with app.test_request_context(path, method='POST', data=json.dumps(data), headers=headers):
            view = [f for ep, f in app.view_functions.items() if ep.endswith(fn)][0]
            try:
                resp = view()
            except (KeyError, AttributeError, TypeError) as e:
                if repo_shape == 'full':
                    raise
                # a payload the view cannot read: flask answers 500 for an unhandled exception
                resp = types.SimpleNamespace(status_code=500)
    finally:
        for (mod, n), f in saved.items():
            setattr(mod, n, f)
        app.config['WEBHOOK_LOGIN'], app.config['WEBHOOK_PWD'] = saved_cfg
        cache.BUILD_STATUS_CACHE.clear()
    jobs = list(berte.task_queue.queue)
    berte.task_queue.queue.clear()
    terms = {}
    if sym:
        for s, k in ((owner, 'owner_ok'), (slug, 'slug_ok'), (full, 'full_ok'),
                     (app.config['WEBHOOK_LOGIN'], 'login_ok'), (app.config['WEBHOOK_PWD'], 'pwd_ok')):
            pass
    return resp.status_code, jobs, dict(owner=owner, slug=slug, full=full)


def handled(host, event, inprogress):
    if host == 'bitbucket':
        if event in ('repo:commit_status_created', 'repo:commit_status_updated'):
            return not inprogress
        return event.startswith('pullrequest:')
    if event in ('status', 'check_suite'):
        return not inprogress
    return event in ('pull_request', 'issue_comment', 'pull_request_review')


def webhook_harness(cfg):
    host, configured_host = cfg

    def h(ctx):
        events = BB_EVENTS if host == 'bitbucket' else GH_EVENTS
        event = events[ctx.choose('event', len(events))]
        creds = ctx.decide(z3.Bool('credentials_sent'))
        inprogress = ctx.decide(z3.Bool('state_inprogress'))
        shape = REPO_SHAPES[ctx.choose('payload_repository', len(REPO_SHAPES))]
        app, berte = get_app()
        cfg_login = SymStr('configured_login', True)
        # run with symbolic configured values
        status, jobs, ids = _webhook_sym(host, configured_host, event, creds, inprogress, shape)
        login_ok = z3.Bool('configured_login==sent-login')
        pwd_ok = z3.Bool('configured_pwd==sent-pwd')
        if host == 'bitbucket':
            ident = z3.And(z3.Bool('configured_owner==owner'), z3.Bool('configured_slug==slug'))
        else:
            ident = z3.Bool('configured_full_name==owner/slug')
        if shape != 'full':
            ident = z3.BoolVal(False)          # a delivery that does not say which repository it is about
        auth = z3.And(z3.BoolVal(creds), login_ok, pwd_ok)
        want = z3.And(auth, ident, z3.BoolVal(handled(host, event, inprogress)))
        conds = [('webhook job enqueued iff credentials, repository and event fit',
                  z3.BoolVal(len(jobs) == 1) == want),
                 ('bad credentials answered 401', z3.Implies(z3.Not(auth), z3.BoolVal(status == 401))),
                 ('foreign repository answered with an error',
                  z3.Implies(z3.And(auth, z3.Not(ident)), z3.BoolVal(status >= 400)))]
        ctx.stats.obligations += len(conds)
        for label, c in conds:
            r, m = ctx.sat_model(z3.Not(c))
            if r == 'sat':
                vals = {}
                for k, sent in (('login', ['sent-login', 'sent-pwd']), ('pwd', ['sent-pwd', 'sent-login']),
                                ('owner', ['owner', 'slug']), ('slug', ['slug', 'owner']),
                                ('full_name', ['owner/slug'])):
                    vals[k] = 'elsewhere'
                    for sname in sent:
                        if model_value(m, z3.Bool('configured_%s==%s' % (k, sname))) is True:
                            vals[k] = sname
                return dict(bad=dict(vals, event=event, creds=creds, inprogress=inprogress, repo_shape=shape),
                            label=label, status=status, njobs=len(jobs))
        return dict(bad=None, label=None, status=status, njobs=len(jobs), event=event)
    return h


def _webhook_sym(host, configured_host, event, creds, inprogress, shape='full'):
    app, berte = get_app()
    v = {}
    status, jobs, ids = webhook_call(host, event, creds, v, True, inprogress, repo_shape=shape) \
        if configured_host == 'same' else (None, None, None)
    return status, jobs, ids


def webhook_concrete(host, configured_host, bad):
    app, berte = get_app()
    status, jobs, _ = webhook_call(host, bad['event'], bad['creds'], bad, False, bad['inprogress'],
                                   repo_shape=bad.get('repo_shape', 'full'))
    auth = bad['creds'] and bad['login'] == 'sent-login' and bad['pwd'] == 'sent-pwd'
    if host == 'bitbucket':
        ident = bad['owner'] == 'owner' and bad['slug'] == 'slug'
    else:
        ident = bad['full_name'] == 'owner/slug'
    if bad.get('repo_shape', 'full') != 'full':
        ident = False
    want = auth and ident and handled(host, bad['event'], bad['inprogress'])
    return (len(jobs) == 1) != bool(want) or (not auth and status != 401) or \
        (auth and not ident and status < 400)


def replay(data):
    common.install_common_stubs()
    _quiet()
    if data.get('kind') == 'userdict':
        from . import userdict
        return userdict.replay(data)
    if data['part'] == 'credpair':
        return True          # finite choices: the path was run concretely
    if data['part'] == 'login':
        return True          # the path was run concretely (the choices are finite)
    if data['part'] == 'readonly':
        return bool(readonly_call(data['ep'], data['args'], data['query'], data['user'], data['admin'],
                                  data['npending'])[0])
    if data['part'] == 'api':
        return api_concrete(data['ep'], data['name'], data['method'], data['case'], data['vals'])
    if data['part'] == 'webhook':
        return webhook_concrete(data['host'], 'same', data['bad'])
    return True


def _quiet():
    import logging
    logging.disable(logging.CRITICAL)


def branch_cases(rep):
    """Solver-drawn branch names around the accepted grammar + lemma."""
    from bert_e.server.api.gwf import branches as AB
    from .c18 import factory_order
    q = R.Q()
    accepted = R.lang(AB.BRANCH_REGEXP) if R.anchored(AB.BRANCH_REGEXP.split('|')[0]) else None
    parts = AB.BRANCH_REGEXP.split('|')
    accepted = z3.Union(*[R.lang(p) for p in parts])
    order = factory_order()
    L = {c.__name__: R.lang(c.pattern) for c in order}
    dest = z3.Union(L['DevelopmentBranch'], L['StabilizationBranch'], L['HotfixBranch'])
    ok, w = q.subset(accepted, dest, 'API branch grammar within GWF destinations')
    rep.transitions += 1
    if not ok:
        rep.cexs.append(Cex('C14', 'API accepts a branch name that is not a GWF destination',
                            dict(part='lemma', name=w), True, 'name %r' % w))
    k = 4 if rep.tier == 'quick' else 12
    good = q.members(accepted, k, maxlen=28)
    near = q.members(z3.Intersect(z3.Complement(accepted),
                                  z3.Concat(z3.Union(z3.Re('development/'), z3.Re('stabilization/'),
                                                     z3.Re('hotfix/')), R.ANYSTR)), k, maxlen=24)
    near += ['development/10', 'development/4.3.1', 'release/4.3', 'feature/x', 'q/4.3',
             'development/4.3/../x', ' development/4.3']
    from_parts = AB.BRANCH_FROM_REGEXP.split('|')
    from_l = z3.Union(*[R.lang(p) for p in from_parts])
    good_from = q.members(from_l, 3, maxlen=20) + ['']
    bad_from = q.members(z3.Intersect(z3.Complement(from_l), z3.Plus(R.SIGMA)), 3, maxlen=12)
    rep.queries += q.n
    rep.add_part('branch grammar (rx2z3)', queries=q.n)
    import re
    cases = []
    for b in good:
        cases.append(dict(branch=b, valid=True))
    for b in near:
        cases.append(dict(branch=b, valid=False))
    for f in good_from:
        cases.append(dict(branch=good[0], branch_from=f, valid=True))
    for f in bad_from:
        cases.append(dict(branch=good[0], branch_from=f, valid=False))
    return cases


def login_harness(ctx):
    """The real _handle_authorize on a fresh session: afterwards the session is authenticated
    (and flagged admin) iff the login was accepted - a refused login must leave nothing a
    later request could ride on."""
    import flask
    import bert_e.server.auth as AU
    app, berte = get_app()
    has_name = ctx.decide(z3.Bool('has_username'))
    is_admin = ctx.decide(z3.Bool('handle_is_admin'))
    org_set = ctx.decide(z3.Bool('organization_configured'))
    mail = ctx.choose('email', 4)           # 0 none, 1 member, 2 other domain, 3 look-alike domain
    stale = ctx.decide(z3.Bool('session_had_identity'))
    emails = [None, 'dev@acme.com', 'dev@evil.org', 'dev@notacme.com']
    info = {}
    if has_name:
        info['preferred_username'] = 'Admin' if is_admin else 'Somebody'
    if emails[mail]:
        info['email'] = emails[mail]
    old = berte.settings.get('organization', '')
    berte.settings['organization'] = 'acme.com' if org_set else ''
    try:
        with app.test_request_context('/api/auth', method='GET', json={}):
            if stale:
                flask.session['user'] = 'previous'
                flask.session['admin'] = True
            resp = AU._handle_authorize(berte, info)
            status = resp.status_code if hasattr(resp, 'status_code') else resp[1]
            user = flask.session.get('user')
            admin = flask.session.get('admin')
    finally:
        berte.settings['organization'] = old
    accepted = has_name and (not org_set or mail == 1)
    bad = None
    if accepted:
        if status not in (200, 302) or user != info['preferred_username'].lower() or bool(admin) != is_admin:
            bad = 'an accepted login does not give the session the identity and admin flag of the account'
    else:
        if status not in (401, 403):
            bad = 'a refused login is not answered with an error status'
        elif not stale and (user or admin):
            bad = 'a refused login leaves an authenticated session behind'
    ctx.stats.obligations += 1
    return dict(bad=bad, vals=dict(has_name=has_name, is_admin=is_admin, org_set=org_set, mail=mail, stale=stale),
                status=status, user=user, admin=admin)


def login_part(rep):
    results, st = explore(login_harness)
    rep.add_stats(st, 'login (_handle_authorize)')
    rep.functions_encoded += ['server.auth._handle_authorize']
    seen = set()
    if not {True, False} <= set(r['bad'] is None for _, r in results) | {True, False}:
        pass
    for _, r in results:
        if r['bad'] and r['bad'] not in seen:
            seen.add(r['bad'])
            rep.cexs.append(Cex('C14', 'login: ' + r['bad'], dict(part='login', vals=r['vals'], label=r['bad']), True,
                                '%s with %r -> status %s, session user=%r admin=%r' % (
                                    r['bad'], r['vals'], r['status'], r['user'], r['admin'])))
        elif not r['bad']:
            rep.validated += 1


CRED = ('hooklogin', 'hookpwd')
CRED_VARIANTS = [CRED, ('hooklogin', 'wrong'), ('wrong', 'hookpwd'), ('hookpwd', 'hooklogin'),
                 ('hooklogi', 'nhookpwd'), ('hookloginh', 'ookpwd'), ('', 'hookloginhookpwd'),
                 ('hookloginhookpwd', ''), ('HOOKLOGIN', 'hookpwd'), ('hooklogin', 'hookpwd '), ('', '')]


def credential_pairs_harness(ctx):
    """The webhook credentials are a *pair*: only the configured (login, password) is accepted -
    not another split of the same characters, not a prefix, not another case."""
    host = ['bitbucket', 'github'][ctx.choose('host', 2)]
    sent = CRED_VARIANTS[ctx.choose('sent_pair', len(CRED_VARIANTS))]
    event = 'pullrequest:updated' if host == 'bitbucket' else 'pull_request'
    v = dict(owner='owner', slug='slug', full_name='owner/slug', login=CRED[0], pwd=CRED[1])
    status, jobs, _ = webhook_call(host, event, True, v, False, sent=sent)
    ok = (sent == CRED) == (len(jobs) == 1) and (sent == CRED or status == 401)
    ctx.stats.obligations += 1
    return dict(ok=ok, host=host, sent=sent, status=status, njobs=len(jobs))


def credential_pairs_part(rep):
    results, st = explore(credential_pairs_harness)
    rep.add_stats(st, 'webhook credential pairs')
    for _, r in results:
        if not r['ok']:
            rep.cexs.append(Cex('C14', 'webhook: credentials other than the configured pair are accepted (or the pair refused)',
                                dict(part='credpair', host=r['host'], sent=list(r['sent'])), True,
                                '%s webhook with login %r password %r -> status %s, %d job(s)' % (
                                    r['host'], r['sent'][0], r['sent'][1], r['status'], r['njobs'])))
            break
        rep.validated += 1


def eval_api_part(rep, prop):
    """Shared with C06 / C07: the evaluation an API request triggers must run with the robot's
    configuration (admins, build key, per-author options, required approvals), whatever the
    request body says - otherwise any logged-in user could switch gates off through the API."""
    _quiet()
    app, berte = get_app()
    rs = [(ep, name, m) for ep, name, m, rule in rules() if name == 'EvalPullRequest']
    if not rs:
        rep.error('EvalPullRequest rule not found')
        return
    ep, name, m = rs[0]
    results, st = explore(api_harness((ep, name, m, {})))
    rep.add_stats(st, 'API evaluation request -> pull-request job (configuration not shadowed)')
    rep.functions_encoded += ['jobs.eval_pull_request.evaluate_pull_request', 'server.api.base.APIEndpoint.view',
                              'job.APIJob.__init__ / Job.__init__ (settings chain)']
    for _, r in results:
        if r['bad'] is not None and 'configuration' in r['label']:
            data = dict(part='api', ep=ep, name=name, method=m, case={}, vals=r['bad'], label=r['label'])
            ok = api_concrete(ep, name, m, {}, r['bad'])
            rep.cexs.append(Cex(prop, 'API evaluation: the request body shadows the robot\'s configuration',
                                data, ok, '%s %r' % (r['label'], r['bad'])))
            break


# -- requests that only read ---------------------------------------------------------------------
def readonly_call(ep, args, query, user, admin, npending):
    """A GET view with jobs pending and done.  Returns (what changed, status)."""
    import flask
    from bert_e.job import PullRequestJob, CommitJob
    app, berte = get_app()
    berte.task_queue.queue.clear()
    pending = []
    for i in range(npending):
        j = (PullRequestJob(bert_e=berte, pull_request=types.SimpleNamespace(id=40 + i)) if i % 2 == 0
             else CommitJob(bert_e=berte, commit='%040x' % (0xc0ffee + i)))
        berte.task_queue.put(j)
        pending.append(j)
    done = [PullRequestJob(bert_e=berte, pull_request=types.SimpleNamespace(id=30 + i)) for i in range(2)]
    for j in done:
        j.status = 'NothingToDo'
    saved_done, saved_status = berte.tasks_done, dict(berte.status)
    from collections import deque
    berte.tasks_done = deque(done, maxlen=1000)
    berte.status['merged PRs'] = [{'id': 30, 'merge_time': __import__('datetime').datetime(2026, 1, 1)}]
    berte.status['merge queue'] = {'41': [('5.1', 'abc'), ('4.3', 'def')]}
    before_status = repr(berte.status)
    changed = []
    try:
        with app.test_request_context('/x' + ('?' + query if query else ''), method='GET'):
            if user:
                flask.session['user'] = 'someuser'
            if admin:
                flask.session['admin'] = True
            try:
                resp = app.view_functions[ep](**args)
                status = resp.status_code if hasattr(resp, 'status_code') else (resp[1] if isinstance(resp, tuple) else 200)
            except Exception as e:
                status = getattr(e, 'code', None)
                if status is None:
                    status = 500            # what flask answers; the read-only clause is checked all the same
        now = list(berte.task_queue.queue)
        if len(now) != len(pending) or any(a is not b for a, b in zip(now, pending)):
            changed.append('the pending jobs (%s -> %s)' % ([str(j) for j in pending], [str(j) for j in now]))
        if list(berte.tasks_done) != done:
            changed.append('the finished jobs')
        if repr(berte.status) != before_status:
            changed.append('the status record')
    finally:
        berte.task_queue.queue.clear()
        berte.tasks_done = saved_done
        berte.status.clear()
        berte.status.update(saved_status)
    return changed, status


def readonly_targets():
    app, _ = get_app()
    out = []
    for r in app.url_map.iter_rules():
        if 'GET' not in r.methods or r.endpoint == 'static' or r.endpoint.startswith('loginpass_'):
            continue            # (the OAuth exchange itself is the login part's business)
        args = {}
        for a in r.arguments:
            args[a] = {'docname': 'user', 'error': None, 'job_id': 'nosuchjob'}.get(a, 'x')
        out.append((r.endpoint, r.rule, args))
    return out


def readonly_harness(ctx):
    targets = readonly_targets()
    ep, rule, args = targets[ctx.choose('view', len(targets))]
    query = ['', 'output=txt', 'navoff=1'][ctx.choose('query', 3)]
    user = ctx.decide(z3.Bool('user'))
    admin = ctx.decide(z3.Bool('admin'))
    npending = ctx.choose('pending_jobs', 4)
    changed, status = readonly_call(ep, args, query, user, admin, npending)
    ctx.stats.obligations += 1
    return dict(ep=ep, rule=rule, args=args, query=query, user=user, admin=admin, npending=npending,
                changed=changed, status=status)


def readonly_part(rep, prop):
    """Every registered GET view (status page, management page, documentation, job listings, the
    OAuth entry points), with 0-3 jobs pending, in every session state: a request that only reads
    leaves the pending jobs (their identity and their order - the order in which the worker will
    evaluate them), the finished jobs and the status record as they were."""
    _quiet()
    results, st = explore(readonly_harness)
    rep.add_stats(st, 'requests that only read')
    rep.functions_encoded += ['server.status.display, server.manage, server.doc, server.api GET views '
                              '(pending / finished jobs and status record unchanged by a read)']
    rep.bounds['read-only views'] = dict(views=[r for _, r, _ in readonly_targets()], pending_jobs='0..3',
                                         query=['', 'output=txt', 'navoff=1'])
    for rule in ('/', '/manage', '/api/jobs'):
        if not any(r['status'] == 200 for _, r in results if r['rule'] == rule):
            rep.error('vacuity: the view %s never answered 200' % rule)
    seen = set()
    for _, r in results:
        if r['changed']:
            sig = 'a request that only reads (%s) changes %s' % (r['rule'], ' and '.join(
                c.split(' (')[0] for c in r['changed']))
            if sig in seen:
                continue
            seen.add(sig)
            data = dict(part='readonly', ep=r['ep'], args=r['args'], query=r['query'], user=r['user'],
                        admin=r['admin'], npending=r['npending'])
            rep.cexs.append(Cex(prop, sig, data, bool(readonly_call(r['ep'], r['args'], r['query'], r['user'],
                                                                    r['admin'], r['npending'])[0]),
                                'GET %s%s with %d pending job(s): %s' % (r['rule'], '?' + r['query'] if r['query'] else '',
                                                                         r['npending'], '; '.join(r['changed']))))
        else:
            rep.validated += 1


def _run_api(cfg):
    _quiet()
    results, st = explore(api_harness(cfg))
    return cfg, results, st.as_dict()


def _run_wh(cfg):
    _quiet()
    results, st = explore(webhook_harness(cfg))
    return cfg, results, st.as_dict()


def check(rep):
    rep.stubs += common.install_common_stubs()
    _quiet()
    rep.stubs += ['session values / configured webhook credentials / configured repository identity '
                  '-> symbolic proxies inside a real Flask request context',
                  'github event classes, bitbucket BuildStatus/PullRequest constructors -> stub objects '
                  '(payload schema validation is outside the claim)']
    rep.functions_encoded += ['server.auth.requires_auth / requires_basic_auth / check_basic_auth',
                              'server.api.base.BaseView.as_blueprint / APIEndpoint.view',
                              'server.api.*.validate_endpoint_data', 'server.api.jobs.GetJob/ListJobs',
                              'server.webhook.parse_bitbucket_webhook / parse_github_webhook and handlers',
                              'bert_e.BertE.put_job', 'job.APIJob.__init__']
    app, berte = get_app()
    rs = rules()
    api_rules = [(ep, name, m) for ep, name, m, rule in rs if name in JOB_ENDPOINTS | READ_ENDPOINTS]
    found = {name for _, name, _ in api_rules}
    if found != JOB_ENDPOINTS | READ_ENDPOINTS:
        rep.error('API endpoints registered: %s' % sorted(found))
    extra = [name for ep, name, m, rule in rs if rule.startswith('/api') and
             name not in JOB_ENDPOINTS | READ_ENDPOINTS | {'auth'}]
    if extra:
        rep.error('unmodelled API rule(s): %s' % extra)
    login_part(rep)
    credential_pairs_part(rep)
    readonly_part(rep, 'C14')
    from . import userdict
    userdict.check(rep, 'C14')          # session['admin'] = user in settings.admins (loaded objects)
    cases = branch_cases(rep)
    cfgs = []
    for ep, name, m in api_rules:
        if name in ('CreateBranch', 'DeleteBranch'):
            for c in cases:
                if name == 'DeleteBranch' and 'branch_from' in c:
                    continue
                cfgs.append((ep, name, m, c))
        else:
            cfgs.append((ep, name, m, {}))
    # management forms: the registered form views carry the endpoint's gate
    for ep, name, m, rule in rs:
        if name in FORMS:
            view_admin = FORMS[name] in ADMIN_ONLY
            from bert_e.server.api import FORMS as LIVE_FORMS
            cls = [f for f in LIVE_FORMS if f.__name__ == name][0]
            rep.transitions += 1
            if bool(cls.admin) != view_admin:
                rep.cexs.append(Cex('C14', 'management form %s gate differs from the statement' % name,
                                    dict(part='form', name=name), True,
                                    '%s.admin = %r' % (name, cls.admin)))
    rep.bounds = dict(api_rules=len(api_rules), branch_cases=len(cases),
                      pr_id='symbolic integer (unbounded)',
                      webhook_events=dict(bitbucket=BB_EVENTS, github=GH_EVENTS))
    rep.outside_claim += ['werkzeug routing / URL converters', 'the OAuth login itself',
                          'payload schema validation of webhook events',
                          'the form views post to the API endpoint over HTTP (requests) - only their '
                          'gate attribute is checked']
    outs = [_run_api(c) for c in cfgs]
    seen = set()
    for cfg, results, st in outs:
        rep.add_stats(st)
        for _, r in results:
            if r['bad'] is not None:
                sig = 'API %s: %s' % (cfg[1], r['label'])
                if sig in seen:
                    continue
                seen.add(sig)
                data = dict(part='api', ep=cfg[0], name=cfg[1], method=cfg[2], case=cfg[3], vals=r['bad'])
                rep.cexs.append(Cex('C14', sig, data, replay(data),
                                    '%s %s status=%s jobs=%s' % (cfg[3], r['bad'], r['status'], r['njobs'])))
            else:
                rep.validated += 0
    rep.add_part('api cells', count=len(cfgs))
    njob = sum(1 for cfg, results, st in outs for _, r in results if r['njobs'] == 1)
    if njob == 0:
        rep.error('vacuity: no API path enqueued a job')
    # concrete replays of every cell through the real test client semantics
    for cfg in cfgs[:60 if rep.tier == 'quick' else len(cfgs)]:
        for user in (0, 1):
            for admin in (0, 1):
                vals = dict(user=user, admin=admin, pr_id=1)
                if api_concrete(cfg[0], cfg[1], cfg[2], cfg[3], vals):
                    rep.error('concrete cell contradicts the oracle: %s %s' % (cfg[1:], vals))
                rep.validated += 1
    tw, st = explore(api_harness(cfgs[0] if cfgs[0][1] in JOB_ENDPOINTS else
                                 [c for c in cfgs if c[1] in JOB_ENDPOINTS][0], twin=True))
    if not any(r['bad'] for _, r in tw):
        rep.error('reachability twin not refuted')
    # webhooks
    for host in ('bitbucket', 'github'):
        cfg, results, st = _run_wh((host, 'same'))
        rep.add_stats(st, 'webhook ' + host)
        if not any(r['njobs'] == 1 for _, r in results):
            rep.error('vacuity: webhook %s never enqueued a job' % host)
        for _, r in results:
            if r['bad'] is not None:
                sig = 'webhook %s: %s' % (host, r['label'])
                if sig in seen:
                    continue
                seen.add(sig)
                data = dict(part='webhook', host=host, bad=r['bad'])
                rep.cexs.append(Cex('C14', sig, data, replay(data), '%r status=%s jobs=%s' % (
                    r['bad'], r['status'], r['njobs'])))
    # github webhook while configured for another host -> refused
    berte.settings['repository_host'] = 'bitbucket'
    v = dict(owner_ok=1, slug_ok=1, full_ok=1, login_ok=1, pwd_ok=1)
    import flask
    with app.test_request_context('/github', method='POST', data='{}', headers={
            'Authorization': 'Basic ' + base64.b64encode(b'hooklogin:hookpwd').decode()}):
        view = [f for ep, f in app.view_functions.items() if ep.endswith('parse_github_webhook')][0]
        resp = view()
    rep.transitions += 1
    if resp.status_code < 400 or berte.task_queue.qsize():
        rep.cexs.append(Cex('C14', 'github webhook accepted while configured for another host',
                            dict(part='hostcheck'), True, 'status %s' % resp.status_code))
    berte.settings['repository_host'] = 'github'
    rep.sample(dict(rules=[(n, m) for _, n, m in api_rules]))
    rep.sample(dict(branch_cases=cases[:6]))
