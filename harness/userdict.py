"""Who is a configured admin (shared by C07 and C14).

`settings.admins` is not a list of strings: the real loader (`setup_settings` ->
`UserSettingSchema` -> `UserDict`) turns each entry `name` or `name@account_id` into an
object whose `__eq__` decides `author in admins`.  The unit checks use plain lists; this
part loads a real settings file and checks, for a solver-chosen commenter,

  author in settings.admins  <=>  author is the declared user name, or the declared
                                  account id, of one admin entry

and that the real `handle_comments` grants a privileged keyword to exactly those
commenters (who are not the pull-request author).
"""
import os
import tempfile
import types
import z3

from symx.core import explore
from symx.report import Cex
from . import common

ADMINS = ['admin', 'Lead@557058:abc-1']                 # declared: by name / by name and account id
# commenters (the hosts hand out lower-case names / account ids)
CANDIDATES = ['admin', 'lead', '557058:abc-1', 'none', 'null', 'mallory', 'admi', 'admin2', '', 'robot', '999',
              'lead@557058:abc-1', '557058']
EXPECTED = {'admin', 'lead', '557058:abc-1'}


def load_settings():
    from bert_e.settings import setup_settings
    d = tempfile.mkdtemp(prefix='userdict-')
    path = os.path.join(d, 'settings.yml')
    with open(path, 'w') as f:
        f.write('repository_owner: o\nrepository_slug: s\nrepository_host: mock\n'
                'robot: robot@999\nrobot_email: r@x\npull_request_base_url: http://x/{pr_id}\n'
                'commit_base_url: http://x/{commit_id}\nbuild_key: pre-merge\n'
                'required_peer_approvals: 1\nrequired_leader_approvals: 0\n')
        f.write('admins:\n' + ''.join('  - %s\n' % a for a in ADMINS))
    try:
        return setup_settings(path)
    finally:
        import shutil
        shutil.rmtree(d, ignore_errors=True)


def run(author, settings):
    """(author in admins, outcome of a privileged keyword written by author on somebody else's PR)"""
    import bert_e.workflow.gitwaterflow as gwf
    from bert_e import exceptions as ex
    from bert_e.lib.settings_dict import SettingsDict
    member = author in settings['admins']

    class _C(common.HostNames):
        def __init__(self, a, text=None, comments=None):
            self.author, self.text, self.comments = a, text, comments
    job = types.SimpleNamespace(
        settings=SettingsDict({}, dict(admins=settings['admins'], robot='robot')),
        pull_request=_C('contributor', comments=[_C(author, '@robot bypass_peer_approval')]),
        bert_e=types.SimpleNamespace(client=types.SimpleNamespace(login='robot')))
    job.active_options = []
    try:
        gwf.handle_comments(job)
        granted = bool(job.settings.get('bypass_peer_approval'))
    except ex.NotEnoughCredentials:
        granted = False
    return member, granted


def harness(ctx):
    import bert_e.workflow.gitwaterflow as gwf
    settings = harness.settings
    author = CANDIDATES[ctx.choose('commenter', len(CANDIDATES))]
    member, granted = run(author, settings)
    want = author in EXPECTED
    ctx.stats.obligations += 3
    bad = None
    # the robot's own identity (declared as name@account_id): a comment is the robot's iff its
    # author is the robot's user name (GitHub, mock) or its account id (Bitbucket)
    is_robot = (author == settings['robot']) or (settings['robot'] == author)
    if bool(member) != want:
        bad = 'membership in the configured admins'
    elif granted != want:
        bad = 'privileged keyword granted'
    elif bool(is_robot) != (author in ('robot', '999')) or bool(author != settings['robot']) == bool(is_robot):
        bad = 'recognition of the robot\'s own name'
    return dict(author=author, bad=bad, member=bool(member), granted=granted)


def check(rep, prop):
    import bert_e.workflow.gitwaterflow as gwf
    import bert_e.reactor as RX
    import bert_e.settings as S
    common.silence(gwf, RX, S)
    gwf.setup({})
    harness.settings = load_settings()
    results, st = explore(harness)
    rep.add_stats(st, 'configured admins (real settings loader)')
    rep.functions_encoded += ['settings.setup_settings / UserSettingSchema / UserDict.__eq__ / __hash__',
                              'gitwaterflow.handle_comments (privileged decision on the loaded admins)']
    rep.bounds['configured admins'] = dict(declared=ADMINS, commenters=CANDIDATES)
    for _, r in results:
        if r['bad']:
            rep.cexs.append(Cex(prop, 'configured admins: a commenter who is not a declared admin is treated as one '
                                '(or the reverse)', dict(kind='userdict', author=r['author']), True,
                                '%s wrong for commenter %r (member=%s granted=%s)' % (
                                    r['bad'], r['author'], r['member'], r['granted'])))
            break
        rep.validated += 1


def replay(data):
    import bert_e.workflow.gitwaterflow as gwf
    gwf.setup({})
    member, granted = run(data['author'], load_settings())
    want = data['author'] in EXPECTED
    return bool(member) != want or granted != want
