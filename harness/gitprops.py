"""C01 / C02 / C03 / C08 on the symbolic repository: the same real routines are
run from an arbitrary repository state; each property contributes its own
precondition (the invariant assumed before the job) and monitors (evaluated
after every observable remote update)."""
import hashlib
import z3

from symx.core import model_value, HarnessError
from symx.report import Cex
import symgit
from . import common, gitflow as GF
from .gitflow import PR

SHAPES = {
    'A': ['development/4.3', 'development/5.1', 'development/10.0'],
    'B': ['development/4.3', 'stabilization/5.1.4', 'development/5.1', 'development/10.0'],
    'C': ['development/5.1', 'development/5', 'development/10.0'],
    'D': ['development/10.0'],
    'E': ['stabilization/4.3.18', 'development/4.3', 'development/5.1'],
    'F': ['development/4.3', 'development/5.1'],
}


def configs_for(prop, tier):
    """Enumerated configurations (cascade shape, PR population, options)."""
    A, B, C, D, E, F = (SHAPES[k] for k in 'ABCDEF')
    cfg = []

    def Q(shape, prs, **o):
        cfg.append(dict(sc='Q', shape=shape, prs=prs, opts=o))

    def Dm(shape, pr, **o):
        cfg.append(dict(sc='D', shape=shape, prs=[pr], opts=o))
    p1 = (1, 'feature/a', 'development/4.3')
    p2 = (2, 'bugfix/b', 'development/5.1')
    ps = (3, 'bugfix/s', 'stabilization/5.1.4')
    # queue merges
    Q(F, [p1])
    Q(A, [p1])
    Q(A, [p1, p2])
    Q(B, [ps])
    Q(C, [(1, 'feature/a', 'development/5.1')])
    Q(D, [(1, 'feature/a', 'development/10.0')])
    Q(E, [(1, 'bugfix/s', 'stabilization/4.3.18')])
    Q(A, [p1], force_merge=True)
    Q(A, [])
    # a destination published after the pull request was queued (create-branch job that died
    # before the queues were rebuilt, or a branch pushed by hand): it has no q/ branch and the
    # queued pull request has no q/w branch for it - the queues must be refused, not merged
    Q(A, [(1, 'feature/a', 'development/4.3')], missing=['q/10.0', 'q/w/1/10.0/feature/a'])
    Q(F, [p1], missing=['q/5.1', 'q/w/1/5.1/feature/a'])
    if tier == 'thorough':
        # (two pull requests on the four-destination shape, `Q(B, [ps, p1])` / `Q(B, [p1, ps])`, and the complete
        # handler on three targets did not finish in 400 s each: not part of the tier - see DESIGN 12)
        # so are the other two-pull-request queue merges that were listed here (> 300 s each on a loaded machine);
        # the tier adds the octopus handler and the direct merges below
        pass
    # the complete pull-request handler, from an arbitrary repository
    for mode in (('queue', 'skip') if prop == 'C03' else ('queue', 'noqueue', 'skip')):
        cfg.append(dict(sc='H', shape=F, prs=[p1], opts=dict(mode=mode, no_octopus=True)))
    if tier == 'thorough':
        cfg.append(dict(sc='H', shape=F, prs=[p1], opts=dict(mode='queue', no_octopus=False)))
    if prop == 'C03':
        # direct merges only happen in skip_queue_when_not_needed mode, after
        # the in-sync / build / is_needed checks
        def Sk(shape, pr, **o):
            cfg.append(dict(sc='S', shape=shape, prs=[pr], opts=o))
        Sk(F, p1)
        Sk(F, p1, no_octopus=True)
        Sk(D, (1, 'feature/a', 'development/10.0'))
        Sk(A, p1, no_octopus=True)
        Sk(E, (1, 'bugfix/s', 'stabilization/4.3.18'), no_octopus=True)
        if tier == 'thorough':
            Sk(A, p1)
            Sk(B, ps, no_octopus=True)
        return cfg
    if prop == 'C02':
        # the server refuses any single ref (symbolic, per ref) inside a push
        Q(F, [p1], reject='all')
        Q(A, [p1], reject='all')
        Q(B, [ps], reject='all')
        Dm(F, p1, no_octopus=True, reject='all')
        if tier == 'thorough':
            Dm(E, (1, 'bugfix/s', 'stabilization/4.3.18'), no_octopus=True, reject='all')
        # add_to_queue with one ref refused, then a fresh queue evaluation
        cfg.append(dict(sc='AQ', shape=F, prs=[p1], opts=dict(no_octopus=True)))
        cfg.append(dict(sc='AQ', shape=A, prs=[p1], opts=dict(no_octopus=True)))
        if tier == 'thorough':
            cfg.append(dict(sc='AQ', shape=F, prs=[p1], opts=dict(no_octopus=False)))
            cfg.append(dict(sc='AQ', shape=B, prs=[ps], opts=dict(no_octopus=True)))
    if prop == 'C08':
        for c in list(cfg):
            if c['prs'] and len(c['prs']) == 1:
                cfg.append(dict(sc='Q', shape=c['shape'], prs=c['prs'],
                                opts=dict(c['opts'], interfere=True)))
    # direct merges (no queue / skip_queue_when_not_needed)
    for no_oct in (False, True):
        Dm(F, p1, no_octopus=no_oct)
        Dm(D, (1, 'feature/a', 'development/10.0'), no_octopus=no_oct)
    Dm(E, (1, 'bugfix/s', 'stabilization/4.3.18'), no_octopus=True)
    Dm(A, p1, no_octopus=True)
    Dm(C, (1, 'feature/a', 'development/5.1'), no_octopus=True)
    if prop == 'C08':
        Dm(F, p1, no_octopus=True, interfere=True)
        # the complete handler with a third-party action before each of its pushes: jobs that end
        # without merging (builds pending / failed) must not touch anything but w/ branches
        cfg.append(dict(sc='H', shape=D, prs=[(1, 'feature/a', 'development/10.0')],
                        opts=dict(mode='noqueue', no_octopus=True, interfere=True)))
        cfg.append(dict(sc='H', shape=F, prs=[p1], opts=dict(mode='noqueue', no_octopus=True, interfere=True)))
    if prop in ('C01', 'C08'):
        # queueing itself must not move a destination
        cfg.append(dict(sc='AQ', shape=F, prs=[p1], opts=dict(no_octopus=True)))
    if tier == 'thorough':
        Dm(A, p1, no_octopus=False)
        Dm(E, (1, 'bugfix/s', 'stabilization/4.3.18'), no_octopus=False)
        Dm(B, ps, no_octopus=True)
    return cfg


def natoms_for(c):
    shape, prs = c['shape'], [PR(*p) for p in c['prs']]
    if c['sc'] == 'Q':
        n = len(GF.queue_refs(shape, prs))
    elif c['sc'] == 'H':
        n = len(GF.handler_refs(shape, prs[0], c['opts']['mode']))
    elif c['sc'] in ('S', 'AQ'):
        n = len(GF.skip_queue_refs(shape, prs[0]))
    else:
        n = len(GF.direct_refs(shape, prs[0]))
    return min(n + 1, 18)


def monitors_for(prop, c, ctx_flags):
    shape = c['shape']
    prs = [PR(*p) for p in c['prs']]
    if prop == 'C01':
        return [GF.mon_inclusion(shape)]
    if prop == 'C02':
        return [GF.mon_all_or_none(shape, prs, 'D' if c['sc'] == 'H' else c['sc']),
                GF.mon_inclusion(shape)]
    if prop == 'C03':
        byp = z3.BoolVal(bool(c['opts'].get('force_merge')))
        return [GF.mon_status(shape, byp)]
    if prop == 'C08':
        return [GF.mon_fast_forward(shape), GF.mon_foreign(shape)]
    raise HarnessError(prop)


def pre_for(prop, c):
    shape = c['shape']
    prs = [PR(*p) for p in c['prs']]

    def pre(ctx, repo):
        if prop == 'C02':
            GF.assume_all_or_none(ctx, repo, shape, prs, 'D' if c['sc'] == 'H' else c['sc'])
    return pre


def make_harness_factory(prop, tier, seed, sample_mod):
    def make(c):
        shape = c['shape']
        prs = [PR(*p) for p in c['prs']]
        nat = natoms_for(c)

        def h(ctx):
            mons = monitors_for(prop, c, None)
            extra = {}
            if c['sc'] == 'Q':
                hook = None
                if c['opts'].get('interfere'):
                    hook = GF.make_interference(None, [p.src for p in prs])
                repo, host, out = GF.scenario_merge_queues(
                    ctx, shape, prs, nat, mons, pre=pre_for(prop, c),
                    force_merge=c['opts'].get('force_merge', False),
                    reject=c['opts'].get('reject'), interfere=hook,
                    nfresh=5 if hook else 4, drop=c['opts'].get('missing', ()))
                scen = 'merge_queues'
                if hook:
                    extra['third_party'] = hook.state['log']
            elif c['sc'] == 'H':
                def mons_of(byp, host):
                    if prop == 'C03':
                        return [GF.mon_status(shape, byp)]
                    return mons
                hook = None
                if c['opts'].get('interfere'):
                    hook = GF.make_interference(None, [p.src for p in prs])
                repo, host, out = GF.scenario_handle_pr(
                    ctx, shape, prs[0], nat, c['opts']['mode'], mons_of,
                    no_octopus=c['opts'].get('no_octopus', False), pre=pre_for(prop, c), interfere=hook)
                scen = 'handle_pr'
                if hook:
                    extra['third_party'] = hook.state['log']
                    extra['job_merges'] = out in ('SuccessMessage', 'Queued')
            elif c['sc'] == 'AQ':
                repo, host, out1, out = GF.scenario_queue_then_merge(
                    ctx, shape, prs[0], nat, no_octopus=c['opts'].get('no_octopus', True),
                    extra_monitors=mons if prop != 'C02' else None)
                out = '%s/%s' % (out1, out)
                scen = 'queue_then_merge'
            elif c['sc'] == 'S':
                repo, host, out = GF.scenario_skip_queue(
                    ctx, shape, prs[0], nat,
                    lambda byp: [GF.mon_status(shape, byp)], pre=pre_for(prop, c),
                    no_octopus=c['opts'].get('no_octopus', False))
                scen = 'skip_queue'
            else:
                hook = None
                if c['opts'].get('interfere'):
                    hook = GF.make_interference(None, [p.src for p in prs])
                repo, out = GF.scenario_direct_merge(
                    ctx, shape, prs[0], nat, mons, pre=pre_for(prop, c),
                    no_octopus=c['opts'].get('no_octopus', False),
                    reject=c['opts'].get('reject'), interfere=hook)
                scen = 'direct_merge'
                if hook:
                    extra['third_party'] = hook.state['log']
            vio = []
            for v in repo.violations:
                d = GF.cex_data(scen, shape, prs, v, **c['opts'])
                d.update(extra)
                if d.get('third_party'):
                    d['third_party'] = [
                        [k, r, w, None if a is None else model_value(v.model, a)]
                        for (k, r, w, a) in d['third_party']]
                if scen in ('skip_queue', 'handle_pr'):
                    d['params']['bypass'] = bool(model_value(v.model, z3.Bool('bypass_build_status')))
                vio.append(d)
            moved = [d for d in shape if d in repo.remote and
                     not z3.eq(z3.simplify(repo.remote[d]), z3.simplify(repo.pre_remote[d]))]
            res = dict(out=out, vio=vio, nops=len(repo.remote_ops), moved=len(moved),
                       diff=None)
            # differential sample: witness model -> expected final relation
            key = hashlib.sha1(repr(ctx.trace).encode()).digest()[0]
            if (not vio and repo.conflicts_taken == 0 and repo.differs_taken == 0
                    and scen not in ('skip_queue', 'queue_then_merge', 'handle_pr') and not extra
                    and (key + seed) % sample_mod == 0):
                r, m = ctx.sat_model(repo.replay_prefs())
                if r == 'sat':
                    refs = sorted(repo.remote)
                    rel = {}
                    for a in refs:
                        for b in refs:
                            rel['%s<=%s' % (a, b)] = bool(model_value(
                                m, repo.subset_t(repo.cl(repo.remote[a]), repo.cl(repo.remote[b]))))
                    v = symgit.Violation('(witness)', m, list(repo.oplog))
                    v.world = repo.concretize(m)
                    res['diff'] = dict(data=GF.cex_data(scen, shape, prs, v, **c['opts']),
                                       refs=refs, rel=rel, out=out)
            return res
        return h
    return make


def differential(d):
    """Run the witness on real git; compare outcome, remote refs and ancestry."""
    from symgit.realgit import RealWorld, RealHost
    from bert_e.lib import git as G
    data = d['data']
    w = data['world']
    prs = [PR(*x) for x in data['prs']]
    reject = [r for r, b in w.get('rejected', {}).items() if b and not r.startswith('tag:')]
    world = RealWorld(w['anc'], w['refs'], w.get('tags'), reject=reject)
    try:
        host = RealHost(world, w['status'], prs)
        repo = world.repository()
        try:
            if data['scenario'] == 'merge_queues':
                out = GF.run_merge_queues(repo, host, data['params'].get('force_merge', False))
            else:
                out = GF.run_direct_merge(repo, data['shape'], prs[0],
                                          data['params'].get('no_octopus', False))
        finally:
            try:
                repo.delete()
            except Exception:
                pass
        heads = world.heads()
        problems = []
        if out != d['out']:
            problems.append('outcome real=%s model=%s' % (out, d['out']))
        if sorted(heads) != d['refs']:
            problems.append('remote refs real=%s model=%s' % (sorted(heads), d['refs']))
        else:
            for a in d['refs']:
                for b in d['refs']:
                    real = world.is_ancestor(heads[a], heads[b])
                    if real != d['rel']['%s<=%s' % (a, b)]:
                        problems.append('ancestry %s<=%s real=%s model=%s'
                                        % (a, b, real, not real))
        return problems
    finally:
        world.cleanup()


def signature(prop, data):
    """Shape of a violation (used to match known findings)."""
    import re
    label = re.sub(r'(development|stabilization|hotfix)/[0-9.]+', '<dst>', data['label'])
    label = re.sub(r'PR \d+', 'PR <n>', label)
    label = re.sub(r'foreign ref \S+', 'foreign ref <ref>', label)
    opts = ','.join('%s=%s' % kv for kv in sorted(data['params'].items())
                    if kv[0] in ('no_octopus',) and kv[1])
    if 'foreign ref' in label:
        opts = ''           # the call site (scenario) identifies the finding
    tp = data.get('third_party')
    if tp:
        opts += (',' if opts else '') + 'third-party %s' % tp[0][0]
        if data['scenario'] == 'handle_pr' and not data.get('job_merges'):
            opts += ', job that does not merge'  
    return '%s [%s%s]' % (label, data['scenario'], (' ' + opts) if opts else '')


def run(rep, prop, extra_configs=None, sample_mod=None):
    rep.stubs += common.install_common_stubs(common.named_render)
    rep.stubs += GF.silence_all()
    import bert_e.workflow.gitwaterflow as gwf
    gwf.setup({})
    rep.stubs += ['git binary -> symgit.SymRepo.cmd (closure-set model of every git '
                  'command the code emits; unknown command = inconclusive)',
                  'git host -> statuses are an uninterpreted function of the commit; '
                  'pull-request objects are stubs that record writes']
    saved = GF.cut_queue_validation_errors()
    rep.cuts += ['QueueValidationError constructors end the path (validate() raises '
                 'IncoherentQueues iff >= 1 error is yielded; refusing paths move nothing)',
                 '`git log` (commit list inside the PartialMerge message) returns empty']
    rep.functions_encoded += [
        'queueing.handle_merge_queues', 'queueing.merge_queues', 'queueing.add_to_queue/get_queue_branch/'
        'get_queue_integration_branch (C02: with one refused ref, followed by a fresh queue evaluation)',
        'queueing.close_queued_pull_request', 'branches.BranchCascade.build/add_branch/'
        'get_merge_paths/finalize', 'branches.build_queue_collection',
        'branches.QueueCollection.build/_add_branch/finalize/validate/'
        '_horizontal_validation/_vertical_validation/_process/_recursive_lookup/'
        '_extract_pr_ids/_remove_unmergeable/failed_prs',
        'integration.merge_integration_branches', 'integration.get_integration_branches',
        'gitwaterflow.handle_pull_request/_handle_pull_request (complete handler, queue / no-queue / '
        'skip-queue modes): early_checks, handle_comments, clone, cascade build+validate, '
        'create/update_integration_branches, check_conflict, check_in_sync, pushes, check_approvals, '
        'check_build_status, is_needed, add_to_queue / merge_integration_branches',
        'git_utils.robust_merge/octopus_merge/consecutive_merge/push',
        'lib.git.Branch.merge/create/remove/reset/checkout/includes_commit/'
        'get_latest_commit/differs/exists', 'lib.git.Repository.push/push_all/checkout',
        'bert_e.BertE.update_queue_status/add_merged_pr', 'pr_utils.notify_user']
    try:
        cfgs = configs_for(prop, rep.tier) + list(extra_configs or [])
        import os
        if os.environ.get('VERIF_ONLY'):
            cfgs = [cfgs[int(i)] for i in os.environ['VERIF_ONLY'].split(',')]
        if sample_mod is None:
            sample_mod = 16 if rep.tier == 'quick' else 8
        make = make_harness_factory(prop, rep.tier, rep.seed, sample_mod)
        acc = common.explore_configs(cfgs, make, split_depth=5)
        broken = dict(common.pop_config_errors())
        for i, msg in broken.items():
            rep.error('configuration %d inconclusive: %s' % (i, msg[:300]))
    finally:
        GF.restore_queue_validation_errors(saved)
    rep.bounds = dict(
        atoms_preexisting='#refs+1 (<= 18)', fresh_commits='4 (queue merge) / 3*targets+6 (direct)',
        queued_prs='0..2', destinations='1..4',
        shapes={k: v for k, v in SHAPES.items()})
    outcomes = {}
    diffs = []
    allvio = []
    for i, c in enumerate(cfgs):
        results, st = acc[i]
        name = '%s %s prs=%s %s' % (c['sc'], '+'.join(GF.version_of(d) for d in c['shape']),
                                    [p[2].split('/')[1] for p in c['prs']], c['opts'] or '')
        rep.add_stats(st, name)
        for _, r in results:
            outcomes[(c['sc'], r['out'])] = outcomes.get((c['sc'], r['out']), 0) + 1
            for v in r['vio']:
                allvio.append(v)
            if r['diff']:
                diffs.append(r['diff'])
        if i in broken:
            continue
        if c['sc'] == 'Q' and c['prs'] and not c['opts'].get('missing') and not any(
                r['out'] == 'Merged' and r['moved'] for _, r in results):
            rep.error('vacuity: no merging path in config %s' % name)
        # (configurations with a missing queue branch: on a correct tree every path ends at the
        # queue validation, possibly already while the path tree is being split - nothing to count)
        if c['sc'] == 'H' and not c['opts'].get('interfere') and not any(
                r['out'] in ('Queued', 'SuccessMessage') for _, r in results):
            rep.error('vacuity: whole handler never queued / merged in config %s' % name)
        if c['sc'] == 'AQ' and not any(r['out'] == 'queued/Merged' for _, r in results):
            rep.error('vacuity: config %s never queued and merged' % name)
        if c['sc'] in 'DS' and not any(r['out'] == 'merged' for _, r in results):
            rep.error('vacuity: no merging path in config %s' % name)
    rep.extra['outcomes'] = {'%s:%s' % k: v for k, v in sorted(outcomes.items())}
    # differential validation of the git model on the sampled witnesses
    cap = 24 if rep.tier == 'quick' else 120
    dsel = [diffs[i] for i in common.sample_indices(len(diffs), cap, rep.seed)]
    probs = common.pmap(differential, dsel) if dsel else []
    for d, pr in zip(dsel, probs):
        if pr:
            if len(rep.errors) < 5:
                rep.error('symgit differs from /usr/bin/git on a sampled path: %s' % pr[:3])
        else:
            rep.validated += 1
    if dsel:
        rep.sample(dict(kind='witness replayed on real git', scenario=dsel[0]['data']['scenario'],
                        shape=dsel[0]['data']['shape'], world=dsel[0]['data']['world'],
                        outcome=dsel[0]['out']))
    # counterexamples
    by_sig = {}
    for v in allvio:
        by_sig.setdefault(signature(prop, v), []).append(v)
    for sig, vs in by_sig.items():
        reproduced = None
        tried = 0
        # prefer candidates that a real repository can realise
        vs.sort(key=lambda v: (v['conflicts'] + v['differs'],
                               not any(v['world'].get('rejected', {}).values()),
                               not v['prefs_ok']))
        for v in vs[:8]:
            if v['differs'] or (v['conflicts'] and not v.get('merge_decisions')):
                continue
            tried += 1
            bad, out = GF.replay_on_real_git(v)
            if v['label'] in bad:
                reproduced = v
                break
        if reproduced is None and tried == 0:
            rep.error('counterexample needs a differing octopus result; '
                      'not replayable on a real repository: %s' % sig)
            continue
        v = reproduced or vs[0]
        rep.cexs.append(Cex(prop, sig, v, reproduced is not None,
                            '%s in %s (%d symbolic paths)' % (v['label'], v['scenario'], len(vs))))
    return cfgs


def replay(data):
    if data.get('scenario') == 'handle_pr':
        common.install_common_stubs(common.named_render)
    bad, out = GF.replay_on_real_git(data)
    return data['label'] in bad
