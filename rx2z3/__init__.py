"""rx2z3: translate the sre parse tree of a Python regular expression (as found
in the live classes) into a z3 regular expression over printable ASCII.

Supported: literals, classes, categories (\\d \\w \\s and negations, ASCII
reading), `.`, groups, alternation, greedy/lazy repeats (language only),
`^`/`$` at the ends, and conditional groups `(G)?...(?(G)Y|N)` which are
expanded into alternatives.  Anything else raises Unsupported (the check then
ends inconclusive, never silently approximated).
"""
try:
    import re._parser as sre_parse
    import re._constants as sre_c
except ImportError:                                    # pragma: no cover
    import sre_parse
    import sre_constants as sre_c
import z3

ALPHA = [chr(c) for c in range(32, 127)]
SIGMA = z3.Range(' ', '~')
STR = z3.StringSort()
EMPTY = z3.Empty(z3.ReSort(STR))
EPS = z3.Re('')
ANYSTR = z3.Star(SIGMA)


class Unsupported(Exception):
    pass


def charset(pred):
    chars = [c for c in ALPHA if pred(c)]
    rs = []
    i = 0
    while i < len(chars):
        j = i
        while j + 1 < len(chars) and ord(chars[j + 1]) == ord(chars[j]) + 1:
            j += 1
        rs.append(z3.Range(chars[i], chars[j]) if j > i else z3.Re(chars[i]))
        i = j + 1
    if not rs:
        return EMPTY
    return z3.Union(*rs) if len(rs) > 1 else rs[0]


def _cat(cat):
    n = str(cat)
    table = {
        'CATEGORY_DIGIT': lambda c: c.isdigit(),
        'CATEGORY_NOT_DIGIT': lambda c: not c.isdigit(),
        'CATEGORY_WORD': lambda c: c.isalnum() or c == '_',
        'CATEGORY_NOT_WORD': lambda c: not (c.isalnum() or c == '_'),
        'CATEGORY_SPACE': lambda c: c.isspace(),
        'CATEGORY_NOT_SPACE': lambda c: not c.isspace(),
    }
    if n not in table:
        raise Unsupported(n)
    return table[n]


def _in(items):
    neg = False
    preds = []
    for op, av in items:
        o = str(op)
        if o == 'NEGATE':
            neg = True
        elif o == 'LITERAL':
            preds.append(lambda c, av=av: ord(c) == av)
        elif o == 'RANGE':
            preds.append(lambda c, av=av: av[0] <= ord(c) <= av[1])
        elif o == 'CATEGORY':
            preds.append(_cat(av))
        else:
            raise Unsupported(o)
    f = lambda c: any(p(c) for p in preds)             # noqa
    return (lambda c: not f(c)) if neg else f


def tr(seq, last=True):
    """Translate a parsed sequence (language only)."""
    parts = []
    seq = list(seq)
    for pos, (op, av) in enumerate(seq):
        o = str(op)
        if o == 'LITERAL':
            if not (32 <= av < 127):
                raise Unsupported('non printable literal %r' % av)
            parts.append(z3.Re(chr(av)))
        elif o == 'NOT_LITERAL':
            parts.append(charset(lambda c: ord(c) != av))
        elif o == 'ANY':
            parts.append(SIGMA)
        elif o == 'IN':
            parts.append(charset(_in(av)))
        elif o == 'AT':
            a = str(av)
            if a in ('AT_BEGINNING', 'AT_BEGINNING_STRING') and pos == 0:
                continue
            if a in ('AT_END', 'AT_END_STRING') and pos == len(seq) - 1 and last:
                continue
            raise Unsupported('anchor %s inside pattern' % a)
        elif o == 'SUBPATTERN':
            parts.append(tr(av[3], last=last and pos == len(seq) - 1))
        elif o == 'BRANCH':
            parts.append(z3.Union(*[tr(b, last=last and pos == len(seq) - 1)
                                    for b in av[1]]))
        elif o in ('MAX_REPEAT', 'MIN_REPEAT'):
            lo, hi, sub = av
            r = tr(sub, last=False)
            if hi == sre_c.MAXREPEAT:
                if lo == 0:
                    parts.append(z3.Star(r))
                elif lo == 1:
                    parts.append(z3.Plus(r))
                else:
                    parts.append(z3.Concat(*([r] * lo + [z3.Star(r)])))
            elif lo == 0 and hi == 1:
                parts.append(z3.Option(r))
            else:
                parts.append(z3.Loop(r, lo, hi))
        else:
            raise Unsupported(o)
    if not parts:
        return EPS
    return z3.Concat(*parts) if len(parts) > 1 else parts[0]


def expand_cond(seq):
    """Rewrite (G)?...(?(G)Y|N) into alternative sequences."""
    seq = list(seq)
    for i, (op, av) in enumerate(seq):
        o = str(op)
        if o == 'SUBPATTERN':
            alts = expand_cond(av[3])
            if len(alts) > 1:
                res = []
                for a in alts:
                    s2 = seq[:i] + [(op, (av[0], av[1], av[2], a))] + seq[i + 1:]
                    res.extend(expand_cond(s2))
                return res
        if o == 'GROUPREF_EXISTS':
            g, yes, no = av
            for k in range(i):
                opk, avk = seq[k]
                if str(opk) == 'MAX_REPEAT' and avk[0] == 0 and avk[1] == 1:
                    sub = list(avk[2])
                    if (len(sub) == 1 and str(sub[0][0]) == 'SUBPATTERN'
                            and sub[0][1][0] == g):
                        with_g = (seq[:k] + sub + seq[k + 1:i] + list(yes)
                                  + seq[i + 1:])
                        without = (seq[:k] + seq[k + 1:i] + list(no or [])
                                   + seq[i + 1:])
                        return expand_cond(with_g) + expand_cond(without)
            raise Unsupported('conditional group %r: optional group not found' % g)
    return [seq]


def parse(pattern):
    return sre_parse.parse(pattern)


def lang(pattern):
    """z3 regex of the strings s with re.match(pattern, s) matching ALL of s.

    Requires the pattern to end with `$` (checked by the caller via
    `anchored`), so that match == fullmatch on strings without newline.
    """
    alts = expand_cond(list(parse(pattern)))
    rs = [tr(a) for a in alts]
    return z3.Union(*rs) if len(rs) > 1 else rs[0]


def anchored(pattern):
    p = list(parse(pattern))
    return bool(p) and str(p[-1][0]) == 'AT' and str(p[-1][1]) in ('AT_END', 'AT_END_STRING')


def group_seq(pattern, name):
    """Return the parsed subsequence of named group `name` (after expansion
    there may be several; all alternatives are returned)."""
    p = parse(pattern)
    gid = p.state.groupdict[name]
    found = []

    def walk(seq):
        for op, av in seq:
            o = str(op)
            if o == 'SUBPATTERN':
                if av[0] == gid:
                    found.append(av[3])
                walk(av[3])
            elif o == 'BRANCH':
                for b in av[1]:
                    walk(b)
            elif o in ('MAX_REPEAT', 'MIN_REPEAT'):
                walk(av[2])
            elif o == 'GROUPREF_EXISTS':
                walk(av[1])
                if av[2]:
                    walk(av[2])
    for alt in expand_cond(list(p)):
        walk(alt)
    return found


def group_lang(pattern, name):
    seqs = group_seq(pattern, name)
    if not seqs:
        raise Unsupported('group %s not found' % name)
    rs = [tr(s, last=False) for s in seqs]
    out = rs[0]
    for r in rs[1:]:
        out = z3.Union(out, r)
    return out


# -- queries ---------------------------------------------------------------

class Q:
    """Query helper counting solver calls; `unknown` raises."""

    def __init__(self, timeout_ms=60000):
        self.n = 0
        self.t = 0.0
        self.timeout = timeout_ms
        self.log = []

    def check(self, *conds, label=''):
        import time
        s = z3.Solver()
        s.set('timeout', self.timeout)
        s.add(*conds)
        t0 = time.time()
        r = str(s.check())
        dt = time.time() - t0
        self.n += 1
        self.t += dt
        self.log.append((label, r, round(dt, 3)))
        if r == 'unknown':
            raise Unsupported('solver unknown on query %r: %s'
                              % (label, s.reason_unknown()))
        return r, (s.model() if r == 'sat' else None)

    def empty(self, regex, label=''):
        s = z3.String('s')
        r, m = self.check(z3.InRe(s, regex), label=label)
        return r == 'unsat', (m[s].as_string() if m is not None else None)

    def subset(self, a, b, label=''):
        """L(a) ⊆ L(b) ?  -> (bool, witness in a \\ b)."""
        return self.empty(z3.Intersect(a, z3.Complement(b)), label=label)

    def equal(self, a, b, label=''):
        ok1, w1 = self.subset(a, b, label + ' [⊆]')
        ok2, w2 = self.subset(b, a, label + ' [⊇]')
        return ok1 and ok2, (w1 if not ok1 else w2)

    def members(self, regex, k, maxlen=40, label=''):
        """k distinct members of L(regex) (solver models)."""
        s = z3.String('s')
        sol = z3.Solver()
        sol.set('timeout', self.timeout)
        sol.add(z3.InRe(s, regex), z3.Length(s) <= maxlen)
        out = []
        while len(out) < k:
            r = str(sol.check())
            self.n += 1
            if r != 'sat':
                break
            v = sol.model()[s].as_string()
            out.append(v)
            sol.add(s != z3.StringVal(v))
            # push diversity: forbid same length+first char combos occasionally
            if len(out) % 3 == 0:
                sol.add(z3.Length(s) != len(v))
        return out
