"""Build a real repository (with /usr/bin/git) that realises a concrete model of
the symbolic repository, so that counterexamples and sampled paths can be run
through the unmodified Bert-E code against the real git binary.

Every atom becomes a commit whose tree holds one file per atom of its closure
(so merges never conflict and octopus == consecutive content-wise); parents are
the maximal elements of the closure minus the atom itself.
"""
import os
import shutil
import subprocess
import tempfile

ENV = dict(os.environ, GIT_AUTHOR_NAME='atom', GIT_AUTHOR_EMAIL='atom@x',
           GIT_COMMITTER_NAME='atom', GIT_COMMITTER_EMAIL='atom@x',
           GIT_AUTHOR_DATE='2020-01-01T00:00:00 +0000',
           GIT_COMMITTER_DATE='2020-01-01T00:00:00 +0000',
           GIT_CONFIG_NOSYSTEM='1')


def git(cwd, *args, inp=None, check=True):
    r = subprocess.run(['git'] + list(args), cwd=cwd, input=inp, env=ENV,
                       stdout=subprocess.PIPE, stderr=subprocess.PIPE, text=True)
    if check and r.returncode != 0:
        raise RuntimeError('git %s failed: %s' % (' '.join(args), r.stderr))
    return r.stdout.strip() if check else r


def popcount(x):
    return bin(x).count('1')


class RealWorld:
    def __init__(self, anc, refs, tags=None, reject=None, base=None):
        """anc: list of closure masks (bit j set: atom j is an ancestor-or-self);
        refs: name -> atom index; tags: name -> atom index;
        reject: set of ref names the server refuses to update."""
        self.anc = list(anc)
        self.refs = dict(refs)
        self.tags = dict(tags or {})
        self.reject = set(reject or ())
        self.dir = tempfile.mkdtemp(prefix='realgit-', dir=base)
        self.bare = os.path.join(self.dir, 'o%s.git' % os.path.basename(self.dir)[8:])
        self.sha = {}
        self.atom_of = {}
        self.third_party_heads = {}   # what a third party last wrote, by ref
        self._build()

    def _build(self):
        os.makedirs(self.bare)
        git(self.bare, 'init', '-q', '--bare', '.')
        N = len(self.anc)
        order = sorted(range(N), key=lambda i: (popcount(self.anc[i]), i))
        blobs = {}
        for i in range(N):
            blobs[i] = git(self.bare, 'hash-object', '-w', '--stdin', inp='atom %d\n' % i)
        for i in order:
            clo = self.anc[i]
            members = [j for j in range(N) if clo >> j & 1]
            if i not in members:
                raise ValueError('closure of atom %d lacks itself' % i)
            tree_in = ''.join('100644 blob %s\ta%02d\n' % (blobs[j], j) for j in sorted(members))
            tree = git(self.bare, 'mktree', inp=tree_in)
            strict = [j for j in members if j != i]
            for j in strict:
                if self.anc[j] & ~clo:
                    raise ValueError('closure of %d not closed under ancestors (%d)' % (i, j))
            maximal = [j for j in strict
                       if not any(k != j and (self.anc[k] >> j & 1) for k in strict)]
            args = ['commit-tree', tree, '-m', 'atom %d' % i]
            for p in sorted(maximal):
                args += ['-p', self.sha[p]]
            c = git(self.bare, *args)
            self.sha[i] = c
            self.atom_of[c] = i
        for name, a in self.refs.items():
            git(self.bare, 'update-ref', 'refs/heads/' + name, self.sha[a])
        for name, a in self.tags.items():
            git(self.bare, 'update-ref', 'refs/tags/' + name, self.sha[a])
        git(self.bare, 'symbolic-ref', 'HEAD', 'refs/heads/' + sorted(self.refs)[0])
        if self.reject:
            self.set_reject(self.reject)

    def set_reject(self, names):
        hook = os.path.join(self.bare, 'hooks', 'update')
        if not names:
            if os.path.exists(hook):
                os.remove(hook)
            return
        os.makedirs(os.path.dirname(hook), exist_ok=True)
        lst = os.path.join(self.bare, 'rejected-refs')
        with open(lst, 'w') as f:
            f.write(''.join(('refs/tags/%s\n' % n[4:]) if n.startswith('tag:')
                            else ('refs/heads/%s\n' % n) for n in names))
        with open(hook, 'w') as f:
            f.write('#!/bin/sh\nif grep -qxF "$1" "%s"; then echo "protected $1" >&2; exit 1; fi\nexit 0\n' % lst)
        os.chmod(hook, 0o755)

    @property
    def url(self):
        return self.bare        # local path: Repository.clone derives the slug

    def repository(self):
        from bert_e.lib.git import Repository
        return Repository(self.url)

    # -- observation ---------------------------------------------------------
    def heads(self):
        out = git(self.bare, 'for-each-ref', '--format=%(refname) %(objectname)', 'refs/heads')
        res = {}
        for line in out.splitlines():
            n, s = line.split()
            res[n[len('refs/heads/'):]] = s
        return res

    def tag_refs(self):
        out = git(self.bare, 'for-each-ref', '--format=%(refname) %(objectname)', 'refs/tags')
        res = {}
        for line in out.splitlines():
            n, s = line.split()
            res[n[len('refs/tags/'):]] = s
        return res

    def is_ancestor(self, a, b):
        r = git(self.bare, 'merge-base', '--is-ancestor', a, b, check=False)
        return r.returncode == 0

    def third_party_create(self, name, atom):
        git(self.bare, 'update-ref', 'refs/heads/' + name, self.sha[atom])
        self.third_party_heads[name] = self.sha[atom]

    def third_party_set(self, name, sha):
        git(self.bare, 'update-ref', 'refs/heads/' + name, sha)
        self.third_party_heads[name] = sha

    def third_party_commit_on(self, name):
        """Append a new commit on top of branch `name` (server side)."""
        tip = self.heads()[name]
        tree = git(self.bare, 'rev-parse', tip + '^{tree}')
        c = git(self.bare, 'commit-tree', tree, '-p', tip, '-m', 'third party commit')
        git(self.bare, 'update-ref', 'refs/heads/' + name, c)
        self.third_party_heads[name] = c
        return c

    def cleanup(self):
        shutil.rmtree(self.dir, ignore_errors=True)


class RealHost:
    """Concrete git-host stub for replays: statuses by real sha."""

    def __init__(self, world, status_by_atom, prs, default='NOTSTARTED'):
        self.world = world
        self.status = {world.sha[int(a)]: s for a, s in status_by_atom.items()
                       if int(a) in world.sha}
        self.default = default
        self.prs = {p.id: p for p in prs}
        self.ops = []
        self.full_name = 'owner/slug'
        self.objs = {}

    def get_build_status(self, sha, key):
        sha = sha.strip()
        self.asked = getattr(self, 'asked', [])
        self.asked.append(sha)
        for full, s in self.status.items():
            if full.startswith(sha) or sha.startswith(full):
                return s
        return self.default

    def get_build_url(self, sha, key):
        return 'http://build'

    def get_commit_url(self, sha):
        return 'http://commit'

    def get_pull_request(self, pid):
        pid = int(pid)
        p = self.prs[pid]
        if pid not in self.objs:
            host = self

            class _PR:
                id = p.id
                src_branch = p.src
                dst_branch = p.dst
                author = 'contributor'
                author_display_name = 'contributor'
                status = 'OPEN'
                title = 'title'
                description = ''
                comments = []

                def add_comment(self, msg):
                    host.ops.append(('comment', p.id))

                def set_bot_status(self, *a, **k):
                    host.ops.append(('bot_status', p.id))

                def decline(self):
                    host.ops.append(('decline', p.id))

                def get_approvals(self):
                    return ['contributor', 'peer']

                def get_participants(self):
                    return ['contributor', 'peer']

                def get_change_requests(self):
                    return []
            self.objs[pid] = _PR()
            self.objs[pid].status = getattr(self, 'pr_status', 'OPEN')
            self.objs[pid].comments = []
        return self.objs[pid]

    def get_pull_requests(self, src_branch=None, **kw):
        return []
