"""symgit: nondeterministic model of the git binary for symx.

SymRepo subclasses bert_e.lib.git.Repository and overrides only cmd(): every
git command line the real code emits is parsed and interpreted on a symbolic
repository.  A commit is an *atom*; every atom has an ancestor-closure
bit-vector (symbolic for pre-existing atoms, constrained to a partial order;
computed for commits created by merges).  Ref tips are symbolic atom indices.
Merge conflicts, `git diff` results and per-ref push rejections are symbolic.

Three ref maps: `tip` (local branches), `tracking` (origin/* as last seen by
this clone), `remote` (the server).  Monitors run after every single remote ref
update.  Unknown commands raise HarnessError (never silently ignored).
"""
import shlex
import z3

from bert_e.lib import git as G
from bert_e.lib.simplecmd import CommandError
from symx.core import Ctx, SBool, SInt, HarnessError, PathAbort, model_value

STATUSES = ['SUCCESSFUL', 'FAILED', 'INPROGRESS', 'NOTSTARTED', 'STOPPED']


class SSha:
    """Symbolic commit id (index into the atom table)."""
    __slots__ = ('repo', 'idx')

    def __init__(self, repo, idx):
        self.repo = repo
        self.idx = idx if z3.is_expr(idx) else z3.IntVal(idx)

    def rstrip(self, *a):
        return self

    def strip(self, *a):
        return self

    def __getitem__(self, k):          # sha[:12]
        if isinstance(k, slice):
            return self
        raise HarnessError('SSha indexed')

    def startswith(self, o):
        if isinstance(o, SSha):
            return bool(SBool(self.idx == o.idx))
        raise HarnessError('SSha.startswith(%r)' % (o,))

    def __deepcopy__(self, memo):
        return self

    def __eq__(self, o):
        if isinstance(o, SSha):
            return SBool(self.idx == o.idx)
        return NotImplemented

    def __ne__(self, o):
        if isinstance(o, SSha):
            return SBool(self.idx != o.idx)
        return NotImplemented

    def __hash__(self):
        return 0

    def __str__(self):
        return 'sha<%s>' % z3.simplify(self.idx)
    __repr__ = __str__

    def __format__(self, spec):
        return str(self)


class Violation:
    def __init__(self, label, model, oplog, detail=''):
        self.label = label
        self.model = model
        self.oplog = oplog
        self.detail = detail


class SymRepo(G.Repository):
    def __init__(self, ctx, refs, natoms, nfresh, tags=(), interfere=None,
                 persistent_rejection=True):
        self._url = 'sym://repo'
        self._mask_pwd = ''
        self.tmp_directory = None
        self.cmd_directory = None
        self._remote_heads = {}
        self._remote_branches = {}
        self.ctx = ctx
        self.N = natoms
        self.M = nfresh
        self.W = natoms + nfresh
        self.nfresh_used = 0
        self.oplog = []          # every command
        self.remote_ops = []     # remote-mutating operations, in order
        self.monitors = []       # f(repo, opdesc) -> [(label, cond)]
        self.violations = []
        self.interfere = interfere
        self.head = None
        self.fresh_origin = {}   # fresh atom -> description (for replays)
        self.fresh_anc = {}      # fresh atom -> set of fresh atoms in its closure (incl. itself)
        self.free_atoms = []     # slots of dead commits (history mode, see gc_fresh)
        W = self.W
        self.anc = ([z3.BitVec('anc%d' % i, W) for i in range(natoms)]
                    + [None] * nfresh)
        low = z3.BitVecVal((1 << natoms) - 1, W)
        cons = []
        for i in range(natoms):
            # every commit descends from the initial commit (atom 0): git refuses
            # to merge unrelated histories
            cons.append(z3.Extract(0, 0, self.anc[i]) == 1)
            cons.append(z3.Extract(i, i, self.anc[i]) == 1)
            cons.append(self.anc[i] & ~low == 0)
            for j in range(natoms):
                if i != j:
                    bit = z3.Extract(j, j, self.anc[i]) == 1
                    cons.append(z3.Implies(bit, self.anc[j] & ~self.anc[i] == 0))
                    cons.append(z3.Implies(bit, z3.Extract(i, i, self.anc[j]) == 0))
        ctx.assume(z3.And(*cons))
        self.tip = {}
        tc = []
        for r in refs:
            t = z3.Int('tip_' + r)
            tc += [t >= 0, t < natoms]
            self.tip[r] = t
        if tc:
            ctx.assume(z3.And(*tc))
        self.tracking = dict(self.tip)
        self.remote = dict(self.tip)
        self.tags = {}
        self.remote_tags = {}
        for t in tags:
            v = z3.Int('tag_' + t)
            ctx.assume(z3.And(v >= 0, v < natoms))
            self.tags[t] = v
            self.remote_tags[t] = v
        self.status_of = z3.Function('status', z3.IntSort(), z3.IntSort())
        self.conflictF = z3.Function('conflict', z3.BitVecSort(W), z3.BitVecSort(W),
                                     z3.BitVecSort(W), z3.BoolSort())
        self.rejected = {}       # ref name -> z3 Bool (persistent per job)
        self.refused = []        # refs whose update the server refused on this path
        self.conflicts_taken = 0
        self.merge_decisions = []    # per non-trivial merge, in order: did it conflict on this path?
        self.conflict_queries = []   # content-keyed mode: (dst, head1, head2, conflicted?) per merge
        self.no_conflicts = False   # harness assumption: merges never conflict
        self.merge_mask = 0      # fresh atoms created by (conflict-free) merges
        self.differs_taken = 0
        self.log_cut = False     # cut: `git log` (used for message text) -> empty
        self.reject_refs = None  # None: server never refuses; else set of refs / 'all'
        self.persistent_rejection = persistent_rejection
        self.pre_remote = dict(self.remote)
        self.pre_tags = dict(self.remote_tags)
        # history mode (harness/history.py): merge conflicts and build results
        # are functions of the *content* (closure without the commits created
        # by conflict-free merges), so that re-doing a merge or re-building the
        # same content in a later job gives the same answer
        self.log_model = False    # history mode: `git log A..B` listed from the closures
        self.fresh_parents = {}   # fresh atom -> parent tip terms (first parent first)
        self.robot_name = 'robot'
        self.model_clone = False  # history mode: run the real Repository.clone() (mirror cache)
        self.cache = None
        self.cache_tags = None
        self.fetch_fault = None   # True / z3 Bool: the next refresh of the mirror cache fails
        self.push_count = 0
        self.fail_push_at = None  # index (1-based, over the whole run) of a push command that fails once
        self.fail_push_from = None  # every push command from that index on fails (server down / refusing everything)
        self.race_ref = None      # a branch somebody pushes to during the next clone
        self.raced = []
        self.content_keyed = False
        self.statusC = z3.Function('status_of_content', z3.BitVecSort(W), z3.IntSort())
        self.boundary = None     # f(repo, what): called before every push command

    # -- Repository API ------------------------------------------------------
    # reset() / delete() are the real ones (they only create / remove an empty
    # scratch directory and clear the ls-remote cache).  clone() is replaced: the
    # clone is the model's local ref table; like the real one it moves
    # cmd_directory into a sub-directory of the scratch directory.
    def clone(self):
        if self.model_clone:
            # the real clone(): its git commands (mirror cache under ~/.bert-e, working
            # copy cloned from the cache, origin re-pointed and updated) are interpreted
            # by _git_clone / _git_fetch / _git_remote below
            return G.Repository.clone(self)
        self.oplog.append(['<clone>'])
        if self.tmp_directory:
            import os
            self.cmd_directory = os.path.join(self.tmp_directory, 'repo')

    def __deepcopy__(self, memo):
        return self

    def get_branches_from_commit(self, commit, refresh_cache=False):
        if not isinstance(commit, SSha):
            raise HarnessError('get_branches_from_commit(%r)' % (commit,))
        # as the real one: through the ls-remote cache (the real method formats
        # the sha as text, which a symbolic commit id cannot follow)
        self._get_remote_branches(refresh_cache)
        return self._remote_heads[commit]

    def _get_remote_branches(self, force=False):
        # `git ls-remote --heads`: the *server* state, names are concrete
        if not force and (self._remote_branches or self._remote_heads):
            return
        # a snapshot of the server at the time of the call (it is a cache)
        self._remote_branches = {n: SSha(self, t) for n, t in self.remote.items()}
        self._remote_heads = _Heads(self, dict(self.remote))

    # -- helpers -------------------------------------------------------------
    def concrete_closure(self, i, mask):
        """Pin atom i's closure to a constant (for concrete graphs)."""
        self.ctx.assume(self.anc[i] == z3.BitVecVal(mask, self.W))
        self.anc[i] = z3.BitVecVal(mask, self.W)

    def cl(self, idx):
        idx = z3.simplify(idx) if z3.is_expr(idx) else z3.IntVal(idx)
        if z3.is_int_value(idx):
            return self.anc[idx.as_long()]
        e = self.anc[0]
        for i in range(1, self.N + self.nfresh_used):
            e = z3.If(idx == i, self.anc[i], e)
        return e

    def subset_t(self, a, b):
        return a & ~b == 0

    def content(self, idx):
        """Closure of a commit without the commits made by conflict-free merges."""
        keep = z3.BitVecVal(((1 << self.W) - 1) & ~self.merge_mask, self.W)
        return z3.simplify(self.cl(idx) & keep)

    def status_term(self, idx):
        if self.content_keyed:
            return self.statusC(self.content(idx))
        return self.status_of(idx)

    def subset(self, a, b):
        return self.ctx.decide(self.subset_t(a, b))

    def fresh(self, closure, origin='', parents=()):
        if self.free_atoms:
            i = self.free_atoms.pop(0)
        else:
            if self.nfresh_used >= self.M:
                raise HarnessError('bound on fresh commits (%d) exhausted' % self.M)
            i = self.N + self.nfresh_used
            self.nfresh_used += 1
        self.merge_mask &= ~(1 << i)
        self.anc[i] = z3.simplify(closure | z3.BitVecVal(1 << i, self.W))
        self.fresh_origin[i] = origin
        fa = {i}
        for p in parents:
            fa |= self.fresh_anc_of(p)
        self.fresh_anc[i] = fa
        self.fresh_parents[i] = list(parents)
        return z3.IntVal(i)

    def fresh_anc_of(self, term):
        """Commits created during the run that are ancestors of `term` (a ref tip).
        Ref tips are never mixtures: a symbolic tip is a pre-existing commit."""
        t = z3.simplify(term) if z3.is_expr(term) else z3.IntVal(term)
        if z3.is_int_value(t) and t.as_long() >= self.N:
            return self.fresh_anc.get(t.as_long(), {t.as_long()})
        return set()

    def gc_fresh(self, roots):
        """History mode: commits created by earlier jobs that no ref in `roots`
        (server refs, tags, saved snapshots) reaches died with the clone that made
        them; their slots are reused.  Only sound with content_keyed (no
        constraint mentions a dead commit)."""
        if not self.content_keyed:
            raise HarnessError('gc_fresh needs content_keyed')
        live = set()
        for t in roots:
            live |= self.fresh_anc_of(t)
        used = set(range(self.N, self.N + self.nfresh_used))
        self.free_atoms = sorted(used - live)

    def resolve(self, name):
        if isinstance(name, SSha):
            return name.idx
        if isinstance(name, G.Branch):
            name = name.name
        name = str(name).strip("'")
        if name.startswith('atom') and name[4:].isdigit():
            return z3.IntVal(int(name[4:]))
        if name.startswith('origin/'):
            n = name[7:]
            if n in self.tracking:
                return self.tracking[n]
            raise CommandError('unknown revision %s' % name)
        if name in self.tip:
            return self.tip[name]
        if name in self.tags:
            return self.tags[name]
        if name in self.tracking:      # bare name of a remote-only branch
            return self.tracking[name]
        raise CommandError('unknown revision %s' % name)

    def rej(self, ref):
        if self.reject_refs is None or (self.reject_refs != 'all'
                                        and ref not in self.reject_refs):
            return z3.BoolVal(False)
        if ref not in self.rejected or not self.persistent_rejection:
            self.rejected[ref] = self.ctx.fresh_bool('rejected_' + ref)
        return self.rejected[ref]

    # -- remote mutation + monitors -------------------------------------------
    def _remote_update(self, kind, ref, new=None, defer=None):
        old = self.remote.get(ref)
        if kind == 'delete':
            self.remote.pop(ref, None)
            self.tracking.pop(ref, None)
        elif kind == 'tag':
            self.remote_tags[ref] = new
        else:
            self.remote[ref] = new
            self.tracking[ref] = new
        op = dict(kind=kind, ref=ref, old=old, new=new, n=len(self.remote_ops))
        self.remote_ops.append(op)
        if defer is not None:
            defer.append(op)      # atomic transaction: observe the final state only
            return
        self._run_monitors(op)

    def _run_monitors(self, op):
        for mon in self.monitors:
            for label, cond in mon(self, op):
                self.ctx.stats.obligations += 1
                cond = z3.simplify(cond)
                if z3.is_true(cond):
                    continue
                r, m = self.ctx.sat_model(z3.Not(cond))
                if r == 'sat':
                    r2, m2 = self.ctx.sat_model(z3.Not(cond), self.replay_prefs())
                    if r2 == 'sat':
                        m = m2
                    v = Violation(label, m, list(self.oplog),
                                  'at remote op %r' % _opstr(op))
                    v.prefs_ok = r2 == 'sat'
                    v.op_index = op['n']
                    v.conflicts = self.conflicts_taken
                    v.merge_decisions = list(self.merge_decisions)
                    v.differs = self.differs_taken
                    v.world = self.concretize(m)
                    self.violations.append(v)

    def third_party(self, where):
        """Interference point: the hook may mutate self.remote (not tracking)."""
        if self.interfere is not None:
            self.interfere(self, where)

    # -- the command interpreter ----------------------------------------------
    def cmd(self, command, *args, **kw):
        objs = {}
        if args:
            rendered = []
            for a in args:
                if isinstance(a, SSha):
                    key = '@@%d@@' % len(objs)
                    objs[key] = a
                    rendered.append(key)
                elif isinstance(a, str):
                    rendered.append(shlex.quote(a.strip()) if a else a)
                else:
                    rendered.append(a)
            command = command % tuple(rendered)
        toks = [objs.get(t, t) for t in shlex.split(command)]
        self.oplog.append([str(t) for t in toks])
        if not toks or toks[0] != 'git':
            raise HarnessError('symgit: not a git command: %r' % (toks,))
        sub, rest = toks[1], toks[2:]
        fn = getattr(self, '_git_' + sub.replace('-', '_'), None)
        if fn is None:
            raise HarnessError('symgit: unsupported git command %r' % (toks,))
        try:
            return fn(rest, kw)
        except CommandError as e:
            # same text as bert_e.lib.simplecmd produces (it echoes the command line)
            raise CommandError('Command %s returned with code 1: %s' % (command, e)) from None

    def _git_config(self, rest, kw):
        return ''

    # -- the clone sequence of Repository.clone() (model_clone) -------------------------
    def _git_clone(self, rest, kw):
        import os
        if rest[:1] != ['--mirror']:
            raise HarnessError('clone form: %r' % (rest,))
        if len(rest) == 2:
            # first job on this machine: create the mirror cache from the server
            self.cache = dict(self.remote)
            self.cache_tags = dict(self.remote_tags)
            slug = self._url.split('/')[-1].replace('.git', '')
            os.makedirs(os.path.join(kw.get('cwd') or '.', slug + '.git'), exist_ok=True)
            return ''
        if len(rest) == 3 and rest[2] == '.git':
            # the working copy: a mirror of the *cache*: every head of the cache is a local branch
            if self.cache is None:
                raise HarnessError('working copy cloned from a cache that was never filled')
            self.tip = dict(self.cache)
            self.tracking = dict(self.cache)
            self.tags = dict(self.cache_tags)
            self.head = None
            return ''
        raise HarnessError('clone form: %r' % (rest,))

    def _git_fetch(self, rest, kw):
        flags = [r for r in rest if r.startswith('--')]
        pos = [r for r in rest if not r.startswith('--')]
        if '--prune' not in flags or any(f not in ('--prune', '--tags') for f in flags) or \
                (pos and pos != ['origin', '+refs/heads/*:refs/heads/*']):
            raise HarnessError('symgit: fetch form %r not modelled' % (rest,))
        # in a mirror, `fetch --prune` follows every ref; with an explicit heads refspec the
        # tags only arrive through --tags, which never deletes one
        tags_pruned = not pos
        # refresh of the mirror cache; may fail (network, stale lock) when the harness says so
        fault = self.fetch_fault
        if fault is not None and fault is not False:
            failed = True if fault is True else self.ctx.decide(fault)
            if failed:
                self.fetch_fault = None
                raise CommandError('fatal: unable to access the remote (cache refresh)')
        self.cache = dict(self.remote)
        if tags_pruned:
            self.cache_tags = dict(self.remote_tags)
        else:
            merged = dict(self.cache_tags or {})
            if '--tags' in flags:
                merged.update(self.remote_tags)
            self.cache_tags = merged
        return ''

    def _git_remote(self, rest, kw):
        if rest[:2] == ['update', 'origin'] and self.model_clone and self.race_ref is not None:
            # somebody pushes a commit while this job is cloning: after the mirror cache was
            # refreshed, before origin/* are updated
            r, self.race_ref = self.race_ref, None
            if r in self.remote:
                self.remote[r] = self.fresh(self.cl(self.remote[r]), 'commit pushed during the clone on ' + r,
                                            parents=[self.remote[r]])
                self.raced.append(self.remote[r].as_long())
        if rest[:2] == ['update', 'origin'] and self.model_clone:
            # origin/* now follow the server; local branches are untouched
            self.tracking = dict(self.remote)
            for t, v in self.remote_tags.items():
                self.tags.setdefault(t, v)
        return ''

    def _git_checkout(self, rest, kw):
        if rest and rest[0] == '-b':
            if len(rest) != 3:
                raise HarnessError('checkout -b form: %r' % (rest,))
            name, src = rest[1], rest[2]
            if name in self.tip:
                raise CommandError('branch %s already exists' % name)
            self.tip[name] = self.resolve(src)
            self.head = name
            return ''
        if len(rest) != 1:
            raise HarnessError('checkout form: %r' % (rest,))
        name = rest[0]
        if name in self.tip:
            self.head = name
            return ''
        if name in self.tracking:          # DWIM: create from origin/<name>
            self.tip[name] = self.tracking[name]
            self.head = name
            return ''
        raise CommandError('pathspec %s did not match' % name)

    def _git_rev_parse(self, rest, kw):
        return SSha(self, self.resolve(rest[0]))

    def _git_merge_base(self, rest, kw):
        if rest[0] != '--is-ancestor' or len(rest) != 3:
            raise HarnessError('merge-base form: %r' % (rest,))
        a = self.cl(self.resolve(rest[1]))
        b = self.cl(self.resolve(rest[2]))
        if self.subset(a, b):
            return ''
        raise CommandError('not an ancestor')

    def _git_branch(self, rest, kw):
        if rest[0] == '-D':
            name = rest[1]
            if name not in self.tip:
                raise CommandError('branch %s not found' % name)
            if name == self.head:
                raise CommandError('cannot delete checked out branch %s' % name)
            del self.tip[name]
            return ''
        if rest[0] == '-r' and rest[1] == '--list':
            pat = rest[2]
            if not (pat.startswith('origin/') and pat.endswith('*')):
                raise HarnessError('branch -r pattern %r' % pat)
            pre = pat[7:-1]
            return ''.join('  origin/%s\n' % r for r in sorted(self.tracking)
                           if r.startswith(pre))
        if rest[0] == '-a' and rest[1] == '--list':
            pat = rest[2]
            if not (pat.startswith('*') and pat.endswith('*')):
                raise HarnessError('branch -a pattern %r' % pat)
            mid = pat.strip('*')
            out = []
            for r in sorted(self.tip):
                if mid in r:
                    out.append(('* ' if r == self.head else '  ') + r)
            for r in sorted(self.tracking):
                if mid in 'remotes/origin/' + r:
                    out.append('  remotes/origin/' + r)
            return ''.join(l + '\n' for l in out)
        raise HarnessError('branch form: %r' % (rest,))

    def _git_log(self, rest, kw):
        if self.log_model:
            return self._log_listing(rest)
        if self.log_cut:
            return ''
        raise HarnessError('symgit (closure model): git log needs the explicit-DAG model')

    # -- `git log A..B --pretty="%H %P"` on the closure model (history mode) -----------------
    def alive_atoms(self):
        return [i for i in range(self.N + self.nfresh_used) if i not in self.free_atoms]

    def _bit(self, closure, i):
        return self.ctx.decide(z3.Extract(i, i, closure) == 1)

    def parents_of(self, i):
        """Parents of commit i, first parent first.  A commit made during the run has the
        parents it was given; a pre-existing commit has the maximal elements of its closure
        (the repository symgit.realgit builds has exactly those, in index order)."""
        if i >= self.N:
            out = []
            for t in self.fresh_parents.get(i, []):
                t = z3.simplify(t) if z3.is_expr(t) else z3.IntVal(t)
                out.append(t.as_long() if z3.is_int_value(t)
                           else self.ctx.concretize_int(t, 0, self.N - 1))
            res = []
            for p in out:
                if p not in res:
                    res.append(p)
            return res
        strict = [j for j in range(self.N) if j != i and self._bit(self.anc[i], j)]
        return [j for j in strict
                if not any(k != j and self._bit(self.anc[k], j) for k in strict)]

    def _log_listing(self, rest):
        flags = [r for r in rest if r.startswith('--')]
        pos = [r for r in rest if not r.startswith('--')]
        no_merges = '--no-merges' in flags
        for f in flags:
            if f != '--no-merges' and not f.startswith('--pretty='):
                raise HarnessError('git log flag %r' % f)
        if len(pos) != 1 or '..' not in pos[0]:
            raise HarnessError('git log form: %r' % (rest,))
        a, b = pos[0].split('..')
        A = self.cl(self.resolve(a))
        Bc = self.cl(self.resolve(b))
        listed = [i for i in self.alive_atoms() if self._bit(Bc, i) and not self._bit(A, i)]
        # children before parents, as git lists them
        def is_anc(j, i):          # j ancestor of i
            return j != i and self._bit(self.anc[i], j)
        order = []
        remaining = list(listed)
        while remaining:
            for i in remaining:
                if not any(is_anc(i, k) for k in remaining if k != i):
                    order.append(i)
                    remaining.remove(i)
                    break
            else:
                raise HarnessError('git log: cyclic ancestry')
        lines = []
        for i in order:
            ps = self.parents_of(i)
            if no_merges and len(ps) > 1:
                continue
            lines.append(' '.join(['atom%d' % i] + ['atom%d' % p for p in ps]))
        return ''.join(l + '\n' for l in lines)

    def _git_show(self, rest, kw):
        # `git show --pretty="%aN" <sha>`: author name (+ the patch for a non-merge commit)
        pos = [r for r in rest if not r.startswith('--')]
        if len(pos) != 1 or not str(pos[0]).startswith('atom'):
            raise HarnessError('git show form: %r' % (rest,))
        i = int(str(pos[0])[4:])
        if i >= self.N and (self.merge_mask >> i) & 1:
            return self.robot_name.encode() + b'\n'
        return b'contributor\n\ndiff --git a/f b/f\n'

    def _git_cat_file(self, rest, kw):
        if rest[:1] != ['-p'] or not str(rest[1]).startswith('atom'):
            raise HarnessError('git cat-file form: %r' % (rest,))
        i = int(str(rest[1])[4:])
        return ''.join('parent atom%d\n' % p for p in self.parents_of(i)) + 'author x\n'

    def _git_tag(self, rest, kw):
        if not rest:
            return ''.join(t + '\n' for t in sorted(self.tags))
        if len(rest) == 1:
            if rest[0] in self.tags:
                raise CommandError('tag exists')
            if self.head is None:
                raise HarnessError('tag without HEAD')
            self.tags[rest[0]] = self.tip[self.head]
            return ''
        raise HarnessError('tag form: %r' % (rest,))

    def _git_reset(self, rest, kw):
        if rest[0] != '--hard' or len(rest) != 2:
            raise HarnessError('reset form: %r' % (rest,))
        if self.head is None:
            raise HarnessError('reset without HEAD')
        self.tip[self.head] = self.resolve(rest[1])
        return ''

    def _git_diff(self, rest, kw):
        a, b = self.resolve(rest[0]), self.resolve(rest[1])
        if self.ctx.decide(a == b):
            return b''
        # merge commits made without conflict carry no content of their own:
        # two commits with the same non-merge ancestors have the same tree
        keep = z3.BitVecVal(((1 << self.W) - 1) & ~self.merge_mask, self.W)
        if self.ctx.decide((self.cl(a) & keep) == (self.cl(b) & keep)):
            return b''
        if self.ctx.decide(self.ctx.fresh_bool('differs')):
            self.differs_taken += 1
            return b'diff'
        return b''

    def _git_merge(self, rest, kw):
        flags = [r for r in rest if isinstance(r, str) and r.startswith('--')]
        srcs = [r for r in rest if not (isinstance(r, str) and r.startswith('--'))]
        for f in flags:
            if f not in ('--no-edit', '--no-ff'):
                raise HarnessError('merge flag %r' % f)
        noff = '--no-ff' in flags
        if self.head is None:
            raise HarnessError('merge without HEAD')
        dst = self.head
        D = self.cl(self.tip[dst])
        S = [self.resolve(x) for x in srcs]
        C = [self.cl(x) for x in S]
        live = [k for k in range(len(S)) if not self.subset(C[k], D)]
        if not live:
            return 'Already up to date.'
        red = []
        for k in live:
            dominated = False
            for j in live:
                if j == k:
                    continue
                if self.subset(C[k], C[j]):
                    # equal closures: keep the first only
                    if self.subset(C[j], C[k]) and k < j:
                        continue
                    dominated = True
                    break
            if not dominated:
                red.append(k)
        if len(red) == 1 and not noff and self.subset(D, C[red[0]]):
            self.tip[dst] = S[red[0]]
            return 'Fast-forward'
        zero = z3.BitVecVal(0, self.W)
        c1 = C[red[0]]
        c2 = C[red[1]] if len(red) > 1 else zero
        if len(red) > 2:
            raise HarnessError('merge of more than two heads')
        if self.content_keyed:
            keep = z3.BitVecVal(((1 << self.W) - 1) & ~self.merge_mask, self.W)
            kd, k1, k2 = z3.simplify(D & keep), z3.simplify(c1 & keep), z3.simplify(c2 & keep)
            cf = self.conflictF(kd, k1, k2)
            # heads that bring no content the destination does not already have (they differ from it by
            # conflict-free merge commits only) cannot conflict
            self.ctx.assume(z3.Implies(((k1 | k2) & ~kd) == 0, z3.Not(cf)))
        else:
            cf = self.conflictF(D, c1, c2)
        if not self.no_conflicts:
            took = self.ctx.decide(cf)
            self.merge_decisions.append(bool(took))
            if self.content_keyed:
                self.conflict_queries.append((cf.arg(0), cf.arg(1), cf.arg(2), took))
            if took:
                self.conflicts_taken += 1
                raise CommandError('CONFLICT (content)')
        u = D
        for k in red:
            u = u | C[k]
        new = self.fresh(u, 'merge into %s of %s' % (dst, [str(s) for s in srcs]),
                         parents=[self.tip[dst]] + [S[k] for k in red])
        self.tip[dst] = new
        self.merge_mask |= 1 << new.as_long()
        return 'Merge made'

    def _git_ls_remote(self, rest, kw):
        raise HarnessError('ls-remote is served by _get_remote_branches')

    def _git_push(self, rest, kw):
        flags = [r for r in rest if r.startswith('--')]
        pos = [r for r in rest if not r.startswith('--')]
        for f in flags:
            if f not in ('--all', '--atomic', '--prune', '--force', '--force-with-lease',
                         '--set-upstream'):
                raise HarnessError('push flag %r' % f)
        lease = '--force-with-lease' in flags
        self.third_party('before push %s' % ' '.join(rest))
        if self.boundary is not None:
            self.boundary(self, 'git push %s' % ' '.join(rest))
        self.push_count += 1
        if self.fail_push_at is not None and self.push_count == self.fail_push_at:
            # a transient failure of this one push command (network, server hiccup): nothing is updated
            raise CommandError('fatal: the remote end hung up unexpectedly')
        if self.fail_push_from is not None and self.push_count >= self.fail_push_from:
            raise CommandError('fatal: the remote end hung up unexpectedly')
        force = '--force' in flags
        if '--all' in flags:
            atomic = '--atomic' in flags
            prune = '--prune' in flags
            updates = []     # (kind, ref, new, ok)
            failed = False
            cands = []       # (kind, ref, new, fast-forward?)
            for r in sorted(self.tip):
                new = self.tip[r]
                if r in self.remote:
                    if self.ctx.decide(self.remote[r] == new):
                        continue          # up to date
                    ff = force or self.subset(self.cl(self.remote[r]), self.cl(new))
                    if not ff and lease and r in self.tracking and \
                            self.ctx.decide(self.tracking[r] == self.remote[r]):
                        ff = True         # the lease holds: the update is forced
                else:
                    ff = True
                cands.append(('update', r, new, ff))
            if prune:
                for r in sorted(self.remote):
                    if r not in self.tip:
                        # (with a lease, a branch this clone never saw is not deleted)
                        if lease and r not in self.tracking:
                            cands.append(('delete', r, None, False))
                        else:
                            cands.append(('delete', r, None, True))
            if atomic:
                # only the disjunction matters: one refusal refuses everything
                anyrej = z3.Or(*[self.rej(r) for (_, r, _, _) in cands]) if cands else z3.BoolVal(False)
                if not all(ff for (_, _, _, ff) in cands) or self.ctx.decide(anyrej):
                    raise CommandError('atomic push failed')
                updates = [(k, r, n, True) for (k, r, n, _) in cands]
            else:
                for k, r, n, ff in cands:
                    ok = ff and not self.ctx.decide(self.rej(r))
                    failed |= not ok
                    updates.append((k, r, n, ok))
            if atomic and failed:
                raise CommandError('atomic push failed')
            deferred = [] if atomic else None
            for kind, r, new, ok in updates:
                if ok:
                    self._remote_update(kind, r, new, defer=deferred)
            for op in deferred or []:
                self._run_monitors(op)
            if failed:
                raise CommandError('push partially rejected')
            return ''
        if not pos or pos[0] != 'origin':
            raise HarnessError('push form: %r' % (rest,))
        failed = False
        for spec in pos[1:]:
            for n1 in spec.split():
                if n1.startswith(':'):
                    r = n1[1:]
                    if r not in self.remote:
                        failed = True
                        continue
                    if self.ctx.decide(self.rej(r)):
                        failed = True
                        self.refused.append(r)
                        continue
                    self._remote_update('delete', r)
                elif n1 in self.tip:
                    new = self.tip[n1]
                    if n1 in self.remote:
                        if self.ctx.decide(self.remote[n1] == new):
                            continue
                        ff = force or self.subset(self.cl(self.remote[n1]), self.cl(new))
                    else:
                        ff = True
                    if not ff:
                        failed = True
                        continue
                    if self.ctx.decide(self.rej(n1)):
                        failed = True
                        self.refused.append(n1)
                        continue
                    self._remote_update('update', n1, new)
                elif n1 in self.tags:
                    if self.ctx.decide(self.rej('tag:' + n1)):
                        failed = True
                        self.refused.append('tag:' + n1)
                        continue
                    self._remote_update('tag', n1, self.tags[n1])
                else:
                    raise CommandError('src refspec %s does not match any' % n1)
        if failed:
            raise CommandError('push failed for some refs')
        return ''

    def replay_prefs(self):
        """Prefer models a real host would produce: commits created during the
        job have no build status yet."""
        ns = STATUSES.index('NOTSTARTED')
        return z3.And(*[self.status_of(z3.IntVal(self.N + k)) == ns
                        for k in range(self.nfresh_used)]) if self.nfresh_used else z3.BoolVal(True)

    # -- model extraction -------------------------------------------------------
    def concretize(self, m):
        """Concrete pre-state + nondeterministic choices under model m."""
        out = dict(N=self.N, M=self.M,
                   anc=[model_value(m, self.anc[i]) & ((1 << self.N) - 1)
                        for i in range(self.N)],
                   refs={r: model_value(m, t) for r, t in self.pre_remote.items()},
                   tags={t: model_value(m, v) for t, v in self.pre_tags.items()},
                   status={}, rejected={r: bool(model_value(m, b))
                                        for r, b in self.rejected.items()})
        for i in range(self.N + self.nfresh_used):
            out['status'][str(i)] = STATUSES[
                model_value(m, self.status_of(z3.IntVal(i))) % len(STATUSES)]
        return out


class _Heads(dict):
    """`_remote_heads[sha]` -> set of branch names whose server tip is sha."""

    def __init__(self, repo, snapshot):
        super().__init__()
        self.repo = repo
        self.snapshot = snapshot
        self.filled = True

    def __bool__(self):
        return True

    def __getitem__(self, sha):
        if not isinstance(sha, SSha):
            raise HarnessError('_remote_heads lookup with %r' % (sha,))
        return {n for n, t in self.snapshot.items()
                if self.repo.ctx.decide(t == sha.idx)}

    def __missing__(self, k):
        return set()


def _opstr(op):
    return '%s %s' % (op['kind'], op['ref'])


class StatusHost:
    """Git-host stub: build statuses are an uninterpreted function of the commit."""

    def __init__(self, repo, key, enum=None):
        self.repo = repo
        self.key = key
        self.asked = []

    def get_build_url(self, sha, key):
        return 'http://build'

    def get_commit_url(self, sha):
        return 'http://commit'

    def get_build_status(self, sha, key):
        from symx.core import SEnum
        if not isinstance(sha, SSha):
            raise HarnessError('get_build_status on %r' % (sha,))
        self.asked.append((sha, key))
        if key != self.key:
            t = self.repo.ctx.fresh_int('status_other_key')
        else:
            t = self.repo.status_term(sha.idx)
            if self.repo.content_keyed:
                self.repo.ctx.assume(z3.And(t >= 0, t < len(STATUSES)))
        return SEnum(t, STATUSES)


def status_domain(repo, natoms_total):
    """Constraint: status codes of all atoms are within the enum."""
    return z3.And(*[z3.And(repo.status_of(z3.IntVal(i)) >= 0,
                           repo.status_of(z3.IntVal(i)) < len(STATUSES))
                    for i in range(natoms_total)])
