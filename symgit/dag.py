"""Explicit-DAG variant of symgit (for code that walks `git log`): every atom has
symbolic first / second parent indices (smaller than its own index) and a
symbolic author flag; reachability bit-vectors are computed from the parents.
`git log A..B` is decided atom by atom and emitted children before parents.
"""
import shlex
import z3

from bert_e.lib import git as G
from bert_e.lib.simplecmd import CommandError
from symx.core import HarnessError, model_value


class DagRepo(G.Repository):
    def __init__(self, ctx, refs, natoms, robot_name='robot', tags=()):
        self._url = 'sym://dag'
        self._mask_pwd = ''
        self.tmp_directory = self.cmd_directory = None
        self._remote_heads, self._remote_branches = {}, {}
        self.ctx = ctx
        self.N = N = natoms
        self.robot_name = robot_name
        self.oplog = []
        self.remote_ops = []
        self.tags = list(tags)
        self.p1 = [z3.Int('p1_%d' % i) for i in range(N)]
        self.p2 = [z3.Int('p2_%d' % i) for i in range(N)]
        self.robot = [z3.Bool('robot_%d' % i) for i in range(N)]
        self.reach = []
        cons = []
        for i in range(N):
            cons += [self.p1[i] >= -1, self.p1[i] < i, self.p2[i] >= -1, self.p2[i] < i,
                     z3.Implies(self.p2[i] >= 0, z3.And(self.p1[i] >= 0, self.p2[i] != self.p1[i]))]
            if i > 0:
                cons.append(self.p1[i] >= 0)          # a single root (atom 0)
            # the robot only ever creates merge commits
            cons.append(z3.Implies(self.robot[i], self.p2[i] >= 0))
            r = z3.BitVecVal(1 << i, N)
            for j in range(i):
                r = r | z3.If(z3.Or(self.p1[i] == j, self.p2[i] == j), self.reach[j],
                              z3.BitVecVal(0, N))
            self.reach.append(r)
        cons.append(self.p1[0] == -1)
        self.tip = {}
        for r in refs:
            t = z3.Int('tip_' + r)
            cons += [t >= 0, t < N]
            self.tip[r] = t
        ctx.assume(z3.And(*cons))
        self.remote = dict(self.tip)
        self.pre = dict(self.tip)
        self.head = None

    def __deepcopy__(self, m):
        return self

    def reset(self):
        pass

    def delete(self):
        pass

    def clone(self):
        pass

    def _get_remote_branches(self, force=False):
        self._remote_branches = {n: 'x' for n in self.remote}

    def rset(self, idx):
        idx = z3.simplify(idx) if z3.is_expr(idx) else z3.IntVal(idx)
        if z3.is_int_value(idx):
            return self.reach[idx.as_long()]
        e = self.reach[0]
        for i in range(1, self.N):
            e = z3.If(idx == i, self.reach[i], e)
        return e

    def res(self, name):
        name = str(name).strip("'")
        if name.startswith('sha'):
            return z3.IntVal(int(name[3:]))
        if name.startswith('origin/'):
            name = name[7:]
        if name in self.tip:
            return self.tip[name]
        raise CommandError('unknown revision ' + name)

    def cmd(self, command, *args, **kw):
        if args:
            command = command % tuple(shlex.quote(a.strip()) if isinstance(a, str) and a else a
                                      for a in args)
        toks = shlex.split(command)
        self.oplog.append(toks)
        if toks[0] != 'git':
            raise HarnessError('not git: %r' % toks)
        sub, rest = toks[1], toks[2:]
        ctx = self.ctx
        if sub == 'config':
            return ''
        if sub == 'tag':
            return ''.join(t + '\n' for t in self.tags)
        if sub == 'checkout':
            if rest[0] == '-b':
                raise HarnessError('DagRepo: branch creation not modelled')
            if rest[0] not in self.tip:
                raise CommandError('no branch ' + rest[0])
            self.head = rest[0]
            return ''
        if sub == 'branch':
            if rest[0] == '-D':
                if rest[1] == self.head:
                    raise CommandError('cannot delete the checked out branch')
                self.tip.pop(rest[1])
                return ''
            if rest[0] == '-a' and rest[1] == '--list':
                mid = rest[2].strip('*')
                names = sorted(set(list(self.tip) + list(self.remote)))
                return ''.join('  %s\n' % r for r in names if mid in r)
            raise HarnessError('branch form %r' % rest)
        if sub == 'rev-parse':
            i = ctx.concretize_int(self.res(rest[0]), 0, self.N - 1)
            return 'sha%d\n' % i
        if sub == 'log':
            rng = [r for r in rest if '..' in r]
            if len(rng) != 1:
                raise HarnessError('log form %r' % rest)
            a, b = rng[0].split('..')
            no_merges = '--no-merges' in rest
            fmt = [r for r in rest if r.startswith('--pretty=')]
            if fmt != ['--pretty=%H %P']:
                raise HarnessError('log format %r' % fmt)
            A = self.rset(self.res(a))
            Bv = self.rset(self.res(b))
            out = []
            for j in reversed(range(self.N)):
                inb = z3.And(z3.Extract(j, j, Bv) == 1, z3.Extract(j, j, A) == 0)
                if no_merges:
                    inb = z3.And(inb, self.p2[j] < 0)
                if ctx.decide(inb):
                    ps = []
                    for p in (self.p1[j], self.p2[j]):
                        for k in range(j):
                            if ctx.decide(p == k):
                                ps.append('sha%d' % k)
                                break
                    out.append(' '.join(['sha%d' % j] + ps))
            return '\n'.join(out) + ('\n' if out else '')
        if sub == 'show':
            j = ctx.concretize_int(self.res(rest[-1]), 0, self.N - 1)
            name = self.robot_name if ctx.decide(self.robot[j]) else 'alice'
            # `git show` also prints the patch of a non-merge commit
            if ctx.decide(self.p2[j] >= 0):
                return (name + '\n\n').encode()
            return (name + '\n\ndiff --git a/a%02d b/a%02d\nnew file mode 100644\n' % (j, j)).encode()
        if sub == 'cat-file':
            j = ctx.concretize_int(self.res(rest[-1]), 0, self.N - 1)
            out = ['tree 0000']
            for p in (self.p1[j], self.p2[j]):
                for k in range(j):
                    if ctx.decide(p == k):
                        out.append('parent sha%d' % k)
                        break
            return '\n'.join(out) + '\n'
        if sub == 'merge-base':
            a = self.rset(self.res(rest[1]))
            b = self.rset(self.res(rest[2]))
            if ctx.decide(a & ~b == 0):
                return ''
            raise CommandError('not an ancestor')
        if sub == 'push':
            flags = [r for r in rest if r.startswith('--')]
            if '--all' in flags:
                ops = []
                for r in sorted(self.tip):
                    if r not in self.remote or not z3.eq(z3.simplify(self.remote[r]), z3.simplify(self.tip[r])):
                        ops.append(('update', r))
                        self.remote[r] = self.tip[r]
                if '--prune' in flags:
                    for r in sorted(self.remote):
                        if r not in self.tip:
                            ops.append(('delete', r))
                            del self.remote[r]
                self.remote_ops += ops
                return ''
            raise HarnessError('DagRepo push form %r' % rest)
        raise HarnessError('DagRepo: unsupported git command %r' % toks)

    def concretize(self, m):
        return dict(N=self.N, p1=[model_value(m, t) for t in self.p1],
                    p2=[model_value(m, t) for t in self.p2],
                    robot=[bool(model_value(m, t)) for t in self.robot],
                    refs={r: model_value(m, t) for r, t in self.pre.items()})
